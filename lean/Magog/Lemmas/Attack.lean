import Magog.Lemmas.Geometry
import Magog.Model.Start

/-! Attack detection (`isUnderCheck`, `isCurrentKingUnderCheck`) against the rules-of-chess
    specification (`Spec.attacked`, `Spec.inCheck`) for an arbitrary well-formed board.

    Structure: (i) well-formedness predicates and finite (kernel-decided) facts about piece codes and
    squares; (ii) table lookups and `sliderWalk` vs `Geo.walkList`; (iii) per-attacker lemmas;
    (iv) `anyM'`; (v) assembly. -/

namespace Magog.Atk
open Magog Magog.Model Magog.Geo

/-! ### (i) Well-formedness predicates -/

/-- the twelve piece codes (kind bit ||| colour bit) -/
def pieceCodes : List Nat :=
  [Gen.WPawn, Gen.WKnight, Gen.WBishop, Gen.WRook, Gen.WQueen, Gen.WKing,
   Gen.BPawn, Gen.BKnight, Gen.BBishop, Gen.BRook, Gen.BQueen, Gen.BKing]

def pawnOf (white : Bool) : Nat := if white then Gen.WPawn else Gen.BPawn
def kingOf (white : Bool) : Nat := if white then Gen.WKing else Gen.BKing
/-- knight / bishop / rook / queen of one colour (the men kept in the `pieces` list) -/
def officersOf (white : Bool) : List Nat :=
  if white then [Gen.WKnight, Gen.WBishop, Gen.WRook, Gen.WQueen]
  else [Gen.BKnight, Gen.BBishop, Gen.BRook, Gen.BQueen]

def colorOf (white : Bool) : Spec.Color := if white then .white else .black

/-- a 128-slot 0x88 board whose on-board slots hold nothing or one of the twelve piece codes -/
structure BoardOk (board : Array Nat) : Prop where
  size : board.size = 128
  codes : ∀ s, s < 128 → isValid s = true → ∃ v, board[s]? = some v ∧ (v = 0 ∨ v ∈ pieceCodes)

/-- the side's piece lists describe exactly the men of that colour on the board -/
structure SideOk (board : Array Nat) (sd : Side) (white : Bool) : Prop where
  pawns : ∀ s, s ∈ sd.pawns ↔ (s < 128 ∧ isValid s = true ∧ board[s]? = some (pawnOf white))
  pieces : ∀ s, s ∈ sd.pieces ↔ (s < 128 ∧ isValid s = true ∧ ∃ c ∈ officersOf white, board[s]? = some c)
  king : ∀ s, s = sd.king ↔ (s < 128 ∧ isValid s = true ∧ board[s]? = some (kingOf white))

/-! Boolean checkers (for concrete positions) -/

def boardOkB (board : Array Nat) : Bool :=
  board.size == 128 &&
  sq88.all fun s => match board[s]? with
    | some v => v == 0 || pieceCodes.contains v
    | none => false

def onBoard (s : Nat) : Bool := decide (s < 128) && isValid s

def sideOkB (board : Array Nat) (sd : Side) (white : Bool) : Bool :=
  (sd.pawns.all fun s => onBoard s && board[s]? == some (pawnOf white)) &&
  (sd.pieces.all fun s => onBoard s && (officersOf white).any fun c => board[s]? == some c) &&
  (onBoard sd.king && board[sd.king]? == some (kingOf white)) &&
  (sq88.all fun s =>
    (board[s]? != some (pawnOf white) || sd.pawns.contains s) &&
    (!((officersOf white).any fun c => board[s]? == some c) || sd.pieces.contains s) &&
    (board[s]? != some (kingOf white) || s == sd.king))

theorem boardOk_of_boardOkB {board : Array Nat} (h : boardOkB board = true) : BoardOk board := by
  simp only [boardOkB, Bool.and_eq_true, beq_iff_eq, List.all_eq_true] at h
  refine ⟨h.1, fun s hs hv => ?_⟩
  have := h.2 s (mem_sq88.2 ⟨hs, hv⟩)
  cases hb : board[s]? with
  | none => simp [hb] at this
  | some v =>
    refine ⟨v, rfl, ?_⟩
    simpa [hb] using this

theorem onBoard_iff {s : Nat} : onBoard s = true ↔ s < 128 ∧ isValid s = true := by
  simp [onBoard]

theorem sideOk_of_sideOkB {board : Array Nat} {sd : Side} {white : Bool}
    (h : sideOkB board sd white = true) : SideOk board sd white := by
  simp only [sideOkB, Bool.and_eq_true, List.all_eq_true, beq_iff_eq, onBoard_iff, List.any_eq_true,
    Bool.or_eq_true, bne_iff_ne, ne_eq, Bool.not_eq_true', List.contains_iff_mem] at h
  obtain ⟨⟨⟨hp, hq⟩, hk⟩, hall⟩ := h
  refine ⟨fun s => ⟨fun hs => ?_, fun hs => ?_⟩, fun s => ⟨fun hs => ?_, fun hs => ?_⟩,
    fun s => ⟨fun hs => ?_, fun hs => ?_⟩⟩
  · have := hp s hs; exact ⟨this.1.1, this.1.2, this.2⟩
  · have := (hall s (mem_sq88.2 ⟨hs.1, hs.2.1⟩)).1.1
    rcases this with h | h
    · exact absurd hs.2.2 h
    · exact h
  · have := hq s hs; exact ⟨this.1.1, this.1.2, this.2⟩
  · have := (hall s (mem_sq88.2 ⟨hs.1, hs.2.1⟩)).1.2
    rcases this with h | h
    · obtain ⟨c, hc, hbc⟩ := hs.2.2
      have : (officersOf white).any (fun c => board[s]? == some c) = true :=
        List.any_eq_true.2 ⟨c, hc, by simp [hbc]⟩
      simp [this] at h
    · exact h
  · subst hs; exact ⟨hk.1.1, hk.1.2, hk.2⟩
  · have := (hall s (mem_sq88.2 ⟨hs.1, hs.2.1⟩)).2
    rcases this with h | h
    · exact absurd hs.2.2 h
    · exact h

/-! ### Finite facts (kernel-decided) -/

theorem valid_le {s : Nat} (hs : s ∈ sq88) : s ≤ Gen.lastValidSquare := by
  have : ∀ s ∈ sq88, s ≤ Gen.lastValidSquare := by decide
  exact this s hs

theorem to64_lt {s : Nat} (hs : s ∈ sq88) : to64 s < 64 := by
  have : ∀ s ∈ sq88, to64 s < 64 := by decide
  exact this s hs

theorem to88_to64 {s : Nat} (hs : s ∈ sq88) : to88 (to64 s) = s := by
  have : ∀ s ∈ sq88, to88 (to64 s) = s := by decide
  exact this s hs

theorem to64_to88 {i : Nat} (hi : i < 64) : to64 (to88 i) = i := by
  have : ∀ i < 64, to64 (to88 i) = i := by decide
  exact this i hi

theorem to88_mem {i : Nat} (hi : i < 64) : to88 i ∈ sq88 :=
  List.mem_map.2 ⟨i, List.mem_range.2 hi, rfl⟩

/-- a slot holding 0 or a piece code is empty in the abstraction iff it holds 0 -/
theorem decode_isNone {v : Nat} (hv : v = 0 ∨ v ∈ pieceCodes) : (decodePiece v).isNone = (v == 0) := by
  have : ∀ v ∈ 0 :: pieceCodes, (decodePiece v).isNone = (v == 0) := by decide
  exact this v (List.mem_cons.2 hv)

theorem decode_pawn (w : Bool) : decodePiece (pawnOf w) = some ⟨colorOf w, .pawn⟩ := by
  cases w <;> decide

theorem decode_king (w : Bool) : decodePiece (kingOf w) = some ⟨colorOf w, .king⟩ := by
  cases w <;> decide

/-- what a piece-list entry is: kind bit, and abstraction -/
def officerKinds : List (Nat × Spec.Kind) :=
  [(Gen.Knight, .knight), (Gen.Bishop, .bishop), (Gen.Rook, .rook), (Gen.Queen, .queen)]

theorem decode_officer {w : Bool} {c : Nat} (hc : c ∈ officersOf w) :
    ∃ kk ∈ officerKinds, c &&& Colorless = kk.1 ∧ decodePiece c = some ⟨colorOf w, kk.2⟩ := by
  have : ∀ w : Bool, ∀ c ∈ officersOf w,
      officerKinds.any (fun kk => c &&& Colorless == kk.1 && decodePiece c == some ⟨colorOf w, kk.2⟩) = true := by
    decide
  have := this w c hc
  simp only [List.any_eq_true, Bool.and_eq_true, beq_iff_eq] at this
  obtain ⟨kk, h1, h2, h3⟩ := this
  exact ⟨kk, h1, h2, h3⟩

/-- a man of colour `w` on the board is that colour's pawn, officer or king -/
theorem classify {v : Nat} (hv : v = 0 ∨ v ∈ pieceCodes) (w : Bool)
    (h : (match decodePiece v with | some m => m.color == colorOf w | none => false) = true) :
    v = pawnOf w ∨ v ∈ officersOf w ∨ v = kingOf w := by
  have : ∀ v ∈ 0 :: pieceCodes, ∀ w : Bool,
      (match decodePiece v with | some m => m.color == colorOf w | none => false) = true →
      v = pawnOf w ∨ v ∈ officersOf w ∨ v = kingOf w := by decide
  exact this v (List.mem_cons.2 hv) w h

theorem decode_eq_king {v : Nat} (hv : v = 0 ∨ v ∈ pieceCodes) (w : Bool)
    (h : decodePiece v = some ⟨colorOf w, .king⟩) : v = kingOf w := by
  have : ∀ v ∈ 0 :: pieceCodes, ∀ w : Bool,
      decodePiece v = some ⟨colorOf w, .king⟩ → v = kingOf w := by decide
  exact this v (List.mem_cons.2 hv) w h

theorem pawnFlag_of_king (w : Bool) :
    (if kingOf w &&& BlackBit == 0 then Gen.WPawnAttacks else Gen.BPawnAttacks)
      = (if w then Gen.WPawnAttacks else Gen.BPawnAttacks) := by
  cases w <;> decide

/-! ### (ii) Board and table lookups -/

theorem bget_of_some {board : Array Nat} {s v : Nat} (h : board[s]? = some v) :
    bget board s = .ok v := by
  obtain ⟨hlt, heq⟩ := Array.getElem?_eq_some_iff.1 h
  simp [bget, hlt, heq, pure, Except.pure]

theorem getD_of_some {board : Array Nat} {s v : Nat} (h : board[s]? = some v) :
    board.getD s 0 = v := by
  simp [Array.getD_eq_getD_getElem?, h]

/-- the abstract board at an on-board square is the decoded 0x88 slot -/
theorem absBoard_at {board : Array Nat} {s v : Nat} (hs : s ∈ sq88) (h : board[s]? = some v) :
    (absBoard board).getD (to64 s) none = decodePiece v := by
  have hlt := to64_lt hs
  simp [absBoard, Array.getD_eq_getD_getElem?, hlt, to88_to64 hs, h]

theorem moveIndex_toNat {a d : Nat} (ha : a ∈ sq88) :
    moveIndex a d = ((idxN a d : Nat) : Int) := by
  have := valid_le ha
  simp only [moveIndex, idxN] at *
  omega

theorem tget_nat (t : List Nat) (what : String) (i : Nat) (hi : i < t.length) :
    tget t.toArray what (i : Int) = .ok (t.getD i 0) := by
  simp [tget, hi, pure, Except.pure, List.getD_eq_getElem?_getD]

theorem attack_len : Gen.attackTable.length = 239 := by decide +kernel
theorem direction_len : Gen.directionTable.length = 239 := by decide +kernel

theorem idxN_lt {a d : Nat} (ha : a ∈ sq88) (hd : d ∈ sq88) : idxN a d < 239 := by
  have h := pairOk_of_valid ha hd
  simp only [pairOk, Bool.and_eq_true, decide_eq_true_eq] at h
  exact h.1.1.1.1.1.1.1.1

theorem tget_attack {a d : Nat} (ha : a ∈ sq88) (hd : d ∈ sq88) :
    tget attackTable "attackTable" (moveIndex a d) = .ok (attackAt a d) := by
  rw [moveIndex_toNat ha, attackTable, attackAt]
  exact tget_nat _ _ _ (by rw [attack_len]; exact idxN_lt ha hd)

theorem tget_direction {a d : Nat} (ha : a ∈ sq88) (hd : d ∈ sq88) :
    tget directionTable "directionTable" (moveIndex a d) = .ok (dirAt a d) := by
  rw [moveIndex_toNat ha, directionTable, dirAt]
  exact tget_nat _ _ _ (by rw [direction_len]; exact idxN_lt ha hd)

/-- `sliderWalk` inspects exactly the squares of `walkList`: no panic when they are all inside the
    array, never `hang`, and the answer is "all of them empty" -/
theorem sliderWalk_eq (board : Array Nat) (dir dest : Nat) :
    ∀ (fuel sq : Nat) (l : List Nat), walkList dir dest fuel sq = some l →
      (∀ s ∈ l, s < board.size) →
      sliderWalk board dir dest fuel sq = .ok (l.all fun s => board.getD s 0 == 0) := by
  intro fuel
  induction fuel with
  | zero => intro sq l h; simp [walkList] at h
  | succ n ih =>
    intro sq l h hl
    simp only [walkList] at h
    by_cases hsd : (sq == dest) = true
    · simp only [hsd, if_true, Option.some.injEq] at h
      subst h
      simp [sliderWalk, hsd, pure, Except.pure]
    · simp only [hsd, Bool.false_eq_true, if_false, Option.map_eq_some_iff] at h
      obtain ⟨l', hl', rfl⟩ := h
      have hsq : sq < board.size := hl sq (List.mem_cons_self)
      have ih' := ih (addb sq dir) l' hl' (fun s hs => hl s (List.mem_cons_of_mem _ hs))
      have hg : board.getD sq 0 = board[sq] := by simp [Array.getD_eq_getD_getElem?, hsq]
      simp only [sliderWalk, hsd, Bool.false_eq_true, if_false, bget, hsq, dite_true, bind,
        Except.bind, pure, Except.pure, ih', List.all_cons, hg]
      by_cases hc : board[sq] = 0 <;> simp [hc]

/-! ### (iii) Per-attacker lemmas -/

/-- the specification's per-attacker test (the body of `Spec.attacked`), at a 0x88 square -/
def att (board : Array Nat) (c : Spec.Color) (d s : Nat) : Bool :=
  match (absBoard board).getD (to64 s) none with
  | some m => m.color == c && Spec.manAttacks (absBoard board) m (to64 s) (to64 d)
  | none => false

theorem att_of_decode {board : Array Nat} {s v : Nat} {m : Spec.Man} (c : Spec.Color) (d : Nat)
    (hs : s ∈ sq88) (h : board[s]? = some v) (hm : decodePiece v = some m) :
    att board c d s = (m.color == c && Spec.manAttacks (absBoard board) m (to64 s) (to64 d)) := by
  simp only [att, absBoard_at hs h, hm]

theorem walk_of_line {a t : Nat} (ha : a ∈ sq88) (ht : t ∈ sq88)
    (h : (Spec.onLine (to64 a) (to64 t) || Spec.onDiag (to64 a) (to64 t)) = true) :
    ∃ l, walkList (dirAt a t) t 8 (addb a (dirAt a t)) = some l ∧ (∀ s ∈ l, s ∈ sq88) ∧
      l.map to64 = Spec.between (to64 a) (to64 t) := by
  have hp := pairOk_of_valid ha ht
  simp only [pairOk, Bool.and_eq_true] at hp
  have hw := hp.2
  rw [if_pos h] at hw
  cases hl : walkList (dirAt a t) t 8 (addb a (dirAt a t)) with
  | none => simp [hl] at hw
  | some l =>
    simp only [hl, Bool.and_eq_true, List.all_eq_true, decide_eq_true_eq, beq_iff_eq] at hw
    exact ⟨l, rfl, fun s hs => mem_sq88.2 (hw.1 s hs), hw.2⟩

theorem all_empty_eq {board : Array Nat} (hb : BoardOk board) :
    ∀ l : List Nat, (∀ s ∈ l, s ∈ sq88) →
      (l.map to64).all (fun s => ((absBoard board).getD s none).isNone)
        = l.all fun s => board.getD s 0 == 0 := by
  intro l
  induction l with
  | nil => intro _; simp only [List.map_nil, List.all_nil]
  | cons x xs ih =>
    intro h
    have hx : x ∈ sq88 := h x List.mem_cons_self
    obtain ⟨hx1, hx2⟩ := mem_sq88.1 hx
    obtain ⟨v, hv, hcode⟩ := hb.codes x hx1 hx2
    simp only [List.map_cons, List.all_cons, ih (fun s hs => h s (List.mem_cons_of_mem _ hs)),
      absBoard_at hx hv, decode_isNone hcode, getD_of_some hv]

theorem clear_eq {board : Array Nat} (hb : BoardOk board) {l : List Nat} {a' t' : Nat}
    (hl : ∀ s ∈ l, s ∈ sq88) (hm : l.map to64 = Spec.between a' t') :
    Spec.clear (absBoard board) a' t' = l.all fun s => board.getD s 0 == 0 := by
  rw [Spec.clear, ← hm]
  exact all_empty_eq hb l hl

/-- a sliding man: attack-table bit, then the direction walk -/
theorem slider_attacks {board : Array Nat} (hb : BoardOk board) {a d c : Nat}
    (ha : a ∈ sq88) (hd : d ∈ sq88) (hc : board[a]? = some c) (bit : Nat) (rel : Bool)
    (hbit : c &&& Colorless = bit) (hnk : bit &&& Knight = 0) (hrel : hasBit a d bit = rel)
    (himp : rel = true → (Spec.onLine (to64 a) (to64 d) || Spec.onDiag (to64 a) (to64 d)) = true) :
    pieceAttacks board d a = .ok (rel && Spec.clear (absBoard board) (to64 a) (to64 d)) := by
  simp only [pieceAttacks, bget_of_some hc, tget_attack ha hd, tget_direction ha hd, bind,
    Except.bind, hbit, hnk]
  simp only [hasBit] at hrel
  cases rel with
  | false =>
    have : attackAt a d &&& bit = 0 := by simpa using hrel
    simp [this, pure, Except.pure]
  | true =>
    have : ¬ (attackAt a d &&& bit = 0) := by simpa using hrel
    obtain ⟨l, hl, hval, hmap⟩ := walk_of_line ha hd (himp rfl)
    have hsz : ∀ s ∈ l, s < board.size := fun s hs => by
      rw [hb.size]; exact (mem_sq88.1 (hval s hs)).1
    simp [this, sliderWalk_eq board _ _ _ _ _ hl hsz, clear_eq hb hval hmap]

theorem knight_attacks {board : Array Nat} {a d c : Nat}
    (ha : a ∈ sq88) (hd : d ∈ sq88) (hc : board[a]? = some c) (hbit : c &&& Colorless = Gen.Knight) :
    pieceAttacks board d a = .ok (hasBit a d Gen.KnightAttacks) := by
  have e1 : Gen.Knight = Gen.KnightAttacks := by decide
  have e2 : (Gen.KnightAttacks &&& Knight != 0) = true := by decide
  simp only [pieceAttacks, bget_of_some hc, tget_attack ha hd, bind, Except.bind, hbit, e1, e2, hasBit]
  by_cases h : attackAt a d &&& Gen.KnightAttacks = 0 <;> simp [h, pure, Except.pure]

/-- the geometric facts of one ordered pair, unpacked -/
theorem pair_bits {a t : Nat} (ha : a ∈ sq88) (ht : t ∈ sq88) :
    hasBit a t Gen.KnightAttacks = Spec.manAttacks emptyBoard ⟨.white, .knight⟩ (to64 a) (to64 t) ∧
    hasBit a t Gen.KingAttacks = Spec.manAttacks emptyBoard ⟨.white, .king⟩ (to64 a) (to64 t) ∧
    hasBit a t Gen.WPawnAttacks = Spec.manAttacks emptyBoard ⟨.white, .pawn⟩ (to64 a) (to64 t) ∧
    hasBit a t Gen.BPawnAttacks = Spec.manAttacks emptyBoard ⟨.black, .pawn⟩ (to64 a) (to64 t) ∧
    hasBit a t Gen.RookAttacks = Spec.onLine (to64 a) (to64 t) ∧
    hasBit a t Gen.BishopAttacks = Spec.onDiag (to64 a) (to64 t) ∧
    hasBit a t Gen.QueenAttacks = (Spec.onLine (to64 a) (to64 t) || Spec.onDiag (to64 a) (to64 t)) := by
  have h := pairOk_of_valid ha ht
  simp only [pairOk, Bool.and_eq_true, beq_iff_eq] at h
  obtain ⟨⟨⟨⟨⟨⟨⟨⟨_, h1⟩, h2⟩, h3⟩, h4⟩, h5⟩, h6⟩, h7⟩, _⟩ := h
  exact ⟨h1, h2, h3, h4, h5, h6, h7⟩

/-- every entry of the `pieces` list is tested exactly as the rules say -/
theorem pieceAttacks_spec {board : Array Nat} (hb : BoardOk board) {w : Bool} {a d c : Nat}
    (ha : a ∈ sq88) (hd : d ∈ sq88) (hc : board[a]? = some c) (hoff : c ∈ officersOf w) :
    pieceAttacks board d a = .ok (att board (colorOf w) d a) := by
  obtain ⟨kk, hkk, hbit, hdec⟩ := decode_officer hoff
  obtain ⟨_, _, _, _, hR, hB, hQ⟩ := pair_bits ha hd
  obtain ⟨hN, _⟩ := pair_bits ha hd
  rw [att_of_decode _ d ha hc hdec]
  simp only [officerKinds, List.mem_cons, List.not_mem_nil, or_false] at hkk
  rcases hkk with rfl | rfl | rfl | rfl
  · rw [knight_attacks ha hd hc hbit, hN]
    simp [Spec.manAttacks]
  · rw [slider_attacks hb ha hd hc Gen.Bishop _ hbit (by decide) hB (fun h => by simp [h])]
    simp [Spec.manAttacks]
  · rw [slider_attacks hb ha hd hc Gen.Rook _ hbit (by decide) hR (fun h => by simp [h])]
    simp [Spec.manAttacks]
  · rw [slider_attacks hb ha hd hc Gen.Queen _ hbit (by decide) hQ (fun h => h)]
    simp [Spec.manAttacks]

theorem pawnAttacks_spec {board : Array Nat} {w : Bool} {a d : Nat}
    (ha : a ∈ sq88) (hd : d ∈ sq88) (hc : board[a]? = some (pawnOf w)) :
    pawnAttacks (if w then Gen.WPawnAttacks else Gen.BPawnAttacks) d a
      = .ok (att board (colorOf w) d a) := by
  obtain ⟨_, _, hW, hBl, _⟩ := pair_bits ha hd
  rw [att_of_decode _ d ha hc (decode_pawn w)]
  simp only [pawnAttacks, tget_attack ha hd, bind, Except.bind, pure, Except.pure]
  simp only [hasBit] at hW hBl
  cases w
  · simp [hBl, colorOf, Spec.manAttacks]
  · simp [hW, colorOf, Spec.manAttacks]

theorem kingAttacks_spec {board : Array Nat} {w : Bool} {a d : Nat}
    (ha : a ∈ sq88) (hd : d ∈ sq88) (hc : board[a]? = some (kingOf w)) :
    (attackAt a d &&& Gen.KingAttacks != 0) = att board (colorOf w) d a := by
  obtain ⟨_, hK, _⟩ := pair_bits ha hd
  rw [att_of_decode _ d ha hc (decode_king w)]
  simp only [hasBit] at hK
  simp [hK, Spec.manAttacks]

/-! ### (iv) `anyM'` with pointwise non-panicking tests -/

theorem anyM'_ok {α} (f : α → M Bool) (g : α → Bool) :
    ∀ l : List α, (∀ x ∈ l, f x = .ok (g x)) → anyM' f l = .ok (l.any g) := by
  intro l
  induction l with
  | nil => intro _; rfl
  | cons x xs ih =>
    intro h
    have hx := h x List.mem_cons_self
    have ih' := ih (fun y hy => h y (List.mem_cons_of_mem _ hy))
    simp only [anyM', hx, bind, Except.bind, ih', List.any_cons]
    cases g x <;> simp [pure, Except.pure]

/-! ### (v) Assembly -/

/-- the body of `Spec.attacked` as a named function of the attacker's square -/
def attS (B : Array (Option Spec.Man)) (c : Spec.Color) (t a : Nat) : Bool :=
  match B.getD a none with
  | some m => m.color == c && Spec.manAttacks B m a t
  | none => false

theorem attacked_eq_attS (B : Array (Option Spec.Man)) (c : Spec.Color) (t : Nat) :
    Spec.attacked B c t = (List.range 64).any (attS B c t) := rfl

theorem att_eq_attS (board : Array Nat) (c : Spec.Color) (d s : Nat) :
    att board c d s = attS (absBoard board) c (to64 d) (to64 s) := rfl

/-- `Spec.attacked` ranges over the 64 squares; the same over the 64 on-board 0x88 squares -/
theorem attacked_eq_any (board : Array Nat) (c : Spec.Color) (d : Nat) :
    Spec.attacked (absBoard board) c (to64 d) = sq88.any (att board c d) := by
  rw [attacked_eq_attS, sq88, List.any_map, Bool.eq_iff_iff]
  simp only [List.any_eq_true, Function.comp]
  constructor
  · rintro ⟨i, hi, h⟩
    refine ⟨i, hi, ?_⟩
    rw [att_eq_attS, to64_to88 (List.mem_range.1 hi)]
    exact h
  · rintro ⟨i, hi, h⟩
    refine ⟨i, hi, ?_⟩
    rw [att_eq_attS, to64_to88 (List.mem_range.1 hi)] at h
    exact h

/-- only the men in the side's lists can contribute: any other square holds no man of that colour -/
theorem any_split {board : Array Nat} {enemy : Side} {w : Bool} (hb : BoardOk board)
    (hs : SideOk board enemy w) (d : Nat) :
    sq88.any (att board (colorOf w) d)
      = (enemy.pawns.any (att board (colorOf w) d) || (enemy.pieces.any (att board (colorOf w) d)
          || att board (colorOf w) d enemy.king)) := by
  rw [Bool.eq_iff_iff]
  simp only [Bool.or_eq_true, List.any_eq_true]
  constructor
  · rintro ⟨s, hs88, hG⟩
    obtain ⟨h1, h2⟩ := mem_sq88.1 hs88
    obtain ⟨v, hv, hcode⟩ := hb.codes s h1 h2
    have hcl : (match decodePiece v with | some m => m.color == colorOf w | none => false) = true := by
      simp only [att, absBoard_at hs88 hv] at hG
      cases hdec : decodePiece v with
      | none => simp [hdec] at hG
      | some m =>
        simp only [hdec, Bool.and_eq_true] at hG
        exact hG.1
    rcases classify hcode w hcl with rfl | hoff | rfl
    · exact Or.inl ⟨s, (hs.pawns s).2 ⟨h1, h2, hv⟩, hG⟩
    · exact Or.inr (Or.inl ⟨s, (hs.pieces s).2 ⟨h1, h2, v, hoff, hv⟩, hG⟩)
    · have : s = enemy.king := (hs.king s).2 ⟨h1, h2, hv⟩
      subst this
      exact Or.inr (Or.inr hG)
  · rintro (⟨s, hm, hG⟩ | ⟨s, hm, hG⟩ | hG)
    · obtain ⟨h1, h2, _⟩ := (hs.pawns s).1 hm
      exact ⟨s, mem_sq88.2 ⟨h1, h2⟩, hG⟩
    · obtain ⟨h1, h2, _⟩ := (hs.pieces s).1 hm
      exact ⟨s, mem_sq88.2 ⟨h1, h2⟩, hG⟩
    · obtain ⟨h1, h2, _⟩ := (hs.king enemy.king).1 rfl
      exact ⟨_, mem_sq88.2 ⟨h1, h2⟩, hG⟩

theorem isUnderCheck_eq {board : Array Nat} {enemy : Side} {w : Bool} {d : Nat}
    (hb : BoardOk board) (hs : SideOk board enemy w) (hd : d ∈ sq88) :
    isUnderCheck board enemy d = .ok (Spec.attacked (absBoard board) (colorOf w) (to64 d)) := by
  obtain ⟨hk1, hk2, hk⟩ := (hs.king enemy.king).1 rfl
  have hkm : enemy.king ∈ sq88 := mem_sq88.2 ⟨hk1, hk2⟩
  have hP : ∀ s ∈ enemy.pawns,
      pawnAttacks (if w then Gen.WPawnAttacks else Gen.BPawnAttacks) d s
        = .ok (att board (colorOf w) d s) := fun s hm => by
    obtain ⟨h1, h2, h3⟩ := (hs.pawns s).1 hm
    exact pawnAttacks_spec (mem_sq88.2 ⟨h1, h2⟩) hd h3
  have hQ : ∀ s ∈ enemy.pieces, pieceAttacks board d s = .ok (att board (colorOf w) d s) :=
    fun s hm => by
      obtain ⟨h1, h2, c, hc, h3⟩ := (hs.pieces s).1 hm
      exact pieceAttacks_spec hb (mem_sq88.2 ⟨h1, h2⟩) hd h3 hc
  rw [attacked_eq_any, any_split hb hs d]
  simp only [isUnderCheck, bget_of_some hk, bind, Except.bind, pawnFlag_of_king,
    anyM'_ok _ _ _ hP, anyM'_ok _ _ _ hQ, tget_attack hkm hd, kingAttacks_spec hkm hd hk]
  cases enemy.pawns.any (att board (colorOf w) d) <;>
    cases enemy.pieces.any (att board (colorOf w) d) <;> simp [pure, Except.pure]

/-- exactly one element of the list satisfies `p`: `find?` returns it -/
theorem find?_unique {α} (p : α → Bool) (x : α) :
    ∀ l : List α, x ∈ l → p x = true → (∀ y ∈ l, p y = true → y = x) → l.find? p = some x := by
  intro l
  induction l with
  | nil => intro h; cases h
  | cons y ys ih =>
    intro hmem hpx huniq
    by_cases hpy : p y = true
    · have := huniq y List.mem_cons_self hpy
      subst this
      simp [hpy]
    · have hne : x ≠ y := fun e => hpy (e ▸ hpx)
      have hmem' : x ∈ ys := by
        rcases List.mem_cons.1 hmem with h | h
        · exact absurd h hne
        · exact h
      simp only [List.find?_cons, hpy]
      exact ih hmem' hpx (fun z hz => huniq z (List.mem_cons_of_mem _ hz))

/-- the specification finds the king of colour `w` on the square the side record names -/
theorem kingSq_eq {board : Array Nat} {sd : Side} {w : Bool} (hb : BoardOk board)
    (hs : SideOk board sd w) :
    Spec.kingSq (absBoard board) (colorOf w) = some (to64 sd.king) := by
  obtain ⟨hk1, hk2, hk⟩ := (hs.king sd.king).1 rfl
  have hkm : sd.king ∈ sq88 := mem_sq88.2 ⟨hk1, hk2⟩
  apply find?_unique
  · exact List.mem_range.2 (to64_lt hkm)
  · simp [absBoard_at hkm hk, decode_king]
  · intro i hi hp
    have hi' := List.mem_range.1 hi
    have hm := to88_mem hi'
    obtain ⟨h1, h2⟩ := mem_sq88.1 hm
    obtain ⟨v, hv, hcode⟩ := hb.codes _ h1 h2
    have := absBoard_at hm hv
    rw [to64_to88 hi'] at this
    rw [this, beq_iff_eq] at hp
    have hvk := decode_eq_king hcode w hp
    subst hvk
    have := (hs.king (to88 i)).2 ⟨h1, h2, hv⟩
    rw [← this, to64_to88 hi']

theorem other_colorOf (w : Bool) : (colorOf w).other = colorOf (!w) := by cases w <;> rfl

/-- the king of side `me` (colour `w`) is attacked by the other side's men, as the rules say -/
theorem inCheck_eq {board : Array Nat} {me enemy : Side} {w : Bool} (hb : BoardOk board)
    (hme : SideOk board me w) (hen : SideOk board enemy (!w)) :
    isUnderCheck board enemy me.king = .ok (Spec.inCheck (absBoard board) (colorOf w)) := by
  obtain ⟨hk1, hk2, _⟩ := (hme.king me.king).1 rfl
  rw [Spec.inCheck, kingSq_eq hb hme]
  simp only [other_colorOf]
  exact isUnderCheck_eq hb hen (mem_sq88.2 ⟨hk1, hk2⟩)

/-! ### Concrete witnesses -/

/-- white Ra1 Ke1 Bf1 Pa2, black Ka8 Rh1: the rook h1 attacks f1, the bishop f1 shields e1 -/
def blockedBoard : Array Nat :=
  ((List.range 128).map fun s =>
    if s == 0x00 then Gen.WRook else if s == 0x04 then Gen.WKing else if s == 0x10 then Gen.WPawn
    else if s == 0x70 then Gen.BKing else if s == 0x07 then Gen.BRook else if s == 0x05 then Gen.WBishop
    else 0).toArray

def blockedWhite : Side := ⟨[0x00, 0x05], [0x10], 0x04⟩
def blockedBlack : Side := ⟨[0x07], [], 0x70⟩

end Magog.Atk
