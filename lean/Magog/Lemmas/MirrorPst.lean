import Magog.Lemmas.MirrorOk

/-! C15 helpers, part 4: the material + piece-square part of the evaluation is colour-symmetric.
    Built on the kernel-checked symmetry of the fourteen hand-typed tables (`pst_mirror`). -/

namespace Magog.Mir
open Magog Magog.Model Magog.Count Magog.Geo Magog.Atk

def tablePairs : List (List Int × List Int) :=
  [(Gen.sqTablePawnsWhite, Gen.sqTablePawnsBlack), (Gen.sqTableKnightsWhite, Gen.sqTableKnightsBlack),
   (Gen.sqTableBishopsWhite, Gen.sqTableBishopsBlack), (Gen.sqTableRooksWhite, Gen.sqTableRooksBlack),
   (Gen.sqTableQueensWhite, Gen.sqTableQueensBlack), (Gen.sqTableKingMidgameWhite, Gen.sqTableKingMidgameBlack),
   (Gen.sqTableKingEndgameWhite, Gen.sqTableKingEndgameBlack)]

def pstMirrorCheck : Bool :=
  tablePairs.all fun (w, b) => w.length == 128 && b.length == 128 &&
    sq88.all fun s => w[s]? == b[mirrorSq s]?

set_option maxRecDepth 100000 in
theorem pstMirrorCheck_true : pstMirrorCheck = true := by decide +kernel

/-- **table symmetry** (on the tables regenerated from pieceSquareTables.go): every white table is the
    rank-mirrored black table, for all seven pairs and all 64 squares; all tables have 128 entries -/
theorem pst_mirror (w b : List Int) (hp : (w, b) ∈ tablePairs) (s : Nat) (hs : s ∈ sq88) :
    w.length = 128 ∧ b.length = 128 ∧ w[s]? = b[mirrorSq s]? := by
  have h := pstMirrorCheck_true
  simp only [pstMirrorCheck, List.all_eq_true, Bool.and_eq_true, beq_iff_eq] at h
  obtain ⟨⟨h1, h2⟩, h3⟩ := h (w, b) hp
  exact ⟨h1, h2, h3 s hs⟩

/-- two tables (as arrays) that are rank mirrors of each other on the board squares -/
def TabMir (t t' : Array Int) : Prop :=
  ∀ s ∈ sq88, t'[mirrorSq s]? = t[s]? ∧ (t[s]?).isSome

theorem tabMir_wb {w b : List Int} (hp : (w, b) ∈ tablePairs) : TabMir w.toArray b.toArray := by
  intro s hs
  obtain ⟨h1, _, h3⟩ := pst_mirror w b hp s hs
  have : s < w.length := by rw [h1]; exact (mem_sq88.1 hs).1
  simp only [List.getElem?_toArray]
  rw [← h3]
  simp [this]

theorem tabMir_bw {w b : List Int} (hp : (w, b) ∈ tablePairs) : TabMir b.toArray w.toArray := by
  intro s hs
  obtain ⟨_, h2, h3⟩ := pst_mirror w b hp (mirrorSq s) (mirrorSq_mem_sq88.2 hs)
  rw [mirrorSq_mirrorSq] at h3
  have : s < b.length := by rw [h2]; exact (mem_sq88.1 hs).1
  simp only [List.getElem?_toArray]
  rw [h3]
  simp [this]

@[simp] theorem okVal_tgetI (t : Array Int) (what : String) (i : Nat) : okVal (tgetI t what i) = t[i]? := by
  unfold tgetI
  cases t[i]? <;> rfl

/-! ### the three sums -/

theorem nonPawnMaterial_mirror {b : Array Nat} (hb : b.size = 128)
    (hbytes : ∀ (i x : Nat), b[i]? = some x → x < 256) (l : List Nat) :
    okVal (nonPawnMaterial (mirrorBoard b) (l.map mirrorSq)) = okVal (nonPawnMaterial b l) := by
  unfold nonPawnMaterial
  rw [sumM'_map]
  refine okVal_sumM'_congr fun s _ => ?_
  simp only [okVal_bind, okVal_bget, getElem?_mirrorBoard hb, okVal_pure]
  cases h : b[s]? with
  | none => rfl
  | some c => simp [mirrorPiece_kind (hbytes s c h)]

theorem nonPawnMaterial_isSome {b : Array Nat} (hb : b.size = 128) {l : List Nat}
    (hl : ∀ s ∈ l, s ∈ sq88) : (okVal (nonPawnMaterial b l)).isSome := by
  unfold nonPawnMaterial
  refine sumM'_isSome fun s hs => ?_
  have : s < b.size := by rw [hb]; exact (mem_sq88.1 (hl s hs)).1
  simp [this]

theorem sidePst_mirror {b : Array Nat} (hb : b.size = 128)
    (hbytes : ∀ (i x : Nat), b[i]? = some x → x < 256) {sd : Side}
    (hpc : ∀ s ∈ sd.pieces, s ∈ sq88) (hpw : ∀ s ∈ sd.pawns, s ∈ sq88)
    {tN tB tR tQ tP tN' tB' tR' tQ' tP' : Array Int}
    (hN : TabMir tN tN') (hB : TabMir tB tB') (hR : TabMir tR tR') (hQ : TabMir tQ tQ') (hP : TabMir tP tP') :
    okVal (sidePst (mirrorBoard b) (mirrorSide sd) tN' tB' tR' tQ' tP') = okVal (sidePst b sd tN tB tR tQ tP) := by
  unfold sidePst
  simp only [mirrorSide, sumMI_map, okVal_bind]
  have e1 := okVal_sumMI_congr (l := sd.pieces)
    (f := fun sq => do
      let pc ← bget (mirrorBoard b) (mirrorSq sq)
      let k := pc &&& Colorless
      if k == Knight then do let v ← tgetI tN' "sqTableKnights" (mirrorSq sq); pure ((Gen.MaterialKnightScore : Int) + v)
      else if k == Bishop then do let v ← tgetI tB' "sqTableBishops" (mirrorSq sq); pure ((Gen.MaterialBishopScore : Int) + v)
      else if k == Rook then do let v ← tgetI tR' "sqTableRooks" (mirrorSq sq); pure ((Gen.MaterialRookScore : Int) + v)
      else if k == Queen then do let v ← tgetI tQ' "sqTableQueens" (mirrorSq sq); pure ((Gen.MaterialQueenScore : Int) + v)
      else pure 0)
    (g := fun sq => do
      let pc ← bget b sq
      let k := pc &&& Colorless
      if k == Knight then do let v ← tgetI tN "sqTableKnights" sq; pure ((Gen.MaterialKnightScore : Int) + v)
      else if k == Bishop then do let v ← tgetI tB "sqTableBishops" sq; pure ((Gen.MaterialBishopScore : Int) + v)
      else if k == Rook then do let v ← tgetI tR "sqTableRooks" sq; pure ((Gen.MaterialRookScore : Int) + v)
      else if k == Queen then do let v ← tgetI tQ "sqTableQueens" sq; pure ((Gen.MaterialQueenScore : Int) + v)
      else pure 0)
    (fun s hs => by
      have h88 := hpc s hs
      simp only [okVal_bind, okVal_bget, getElem?_mirrorBoard hb]
      cases h : b[s]? with
      | none => rfl
      | some c =>
        simp only [Option.map_some, Option.bind_some, mirrorPiece_kind (hbytes s c h)]
        simp only [okVal_ite, okVal_bind, okVal_tgetI, (hN s h88).1, (hB s h88).1, (hR s h88).1, (hQ s h88).1])
  have e2 := okVal_sumMI_congr (l := sd.pawns)
    (f := fun sq => do let v ← tgetI tP' "sqTablePawns" (mirrorSq sq); pure ((Gen.MaterialPawnScore : Int) + v))
    (g := fun sq => do let v ← tgetI tP "sqTablePawns" sq; pure ((Gen.MaterialPawnScore : Int) + v))
    (fun s hs => by simp only [okVal_bind, okVal_tgetI, (hP s (hpw s hs)).1])
  rw [e1, e2]

theorem bind2_isSome {α β γ} {x : M α} {y : M β} (f : α → β → γ) (hx : (okVal x).isSome)
    (hy : (okVal y).isSome) : (okVal (do let a ← x; let b ← y; pure (f a b))).isSome := by
  cases x with
  | error e => simp at hx
  | ok a => cases y with
    | error e => simp at hy
    | ok b => rfl

theorem sidePst_isSome {b : Array Nat} (hb : b.size = 128) {sd : Side}
    (hpc : ∀ s ∈ sd.pieces, s ∈ sq88) (hpw : ∀ s ∈ sd.pawns, s ∈ sq88)
    {tN tB tR tQ tP tN' tB' tR' tQ' tP' : Array Int}
    (hN : TabMir tN tN') (hB : TabMir tB tB') (hR : TabMir tR tR') (hQ : TabMir tQ tQ') (hP : TabMir tP tP') :
    (okVal (sidePst b sd tN tB tR tQ tP)).isSome := by
  unfold sidePst
  refine bind2_isSome (fun a b => a + b) (sumMI_isSome fun s hs => ?_) (sumMI_isSome fun s hs => ?_)
  · have h88 := hpc s hs
    have : s < b.size := by rw [hb]; exact (mem_sq88.1 h88).1
    obtain ⟨vN, hvN⟩ := Option.isSome_iff_exists.1 (hN s h88).2
    obtain ⟨vB, hvB⟩ := Option.isSome_iff_exists.1 (hB s h88).2
    obtain ⟨vR, hvR⟩ := Option.isSome_iff_exists.1 (hR s h88).2
    obtain ⟨vQ, hvQ⟩ := Option.isSome_iff_exists.1 (hQ s h88).2
    simp only [okVal_bind, okVal_bget, this, getElem?_pos, Option.bind_some, okVal_ite, okVal_tgetI,
      hvN, hvB, hvR, hvQ, okVal_pure]
    repeat' split
    all_goals rfl
  · obtain ⟨v, hv⟩ := Option.isSome_iff_exists.1 (hP s (hpw s hs)).2
    simp [hv]

/-! ### `pieceSquareScore` -/

/-- what the cheap part of the evaluation needs: a 128-slot byte board and lists of board squares -/
structure PstOk (p : Position) : Prop where
  size : p.board.size = 128
  bytes : ∀ (i x : Nat), p.board[i]? = some x → x < 256
  flags : p.flags < 256
  wPieces : ∀ s ∈ p.whitePieces, s ∈ sq88
  bPieces : ∀ s ∈ p.blackPieces, s ∈ sq88
  wPawns : ∀ s ∈ p.whitePawns, s ∈ sq88
  bPawns : ∀ s ∈ p.blackPawns, s ∈ sq88
  wKing : p.whiteKing ∈ sq88
  bKing : p.blackKing ∈ sq88

theorem MirrorOk.pstOk {p : Position} (h : MirrorOk p) : PstOk p :=
  ⟨h.size, h.bytes, h.flags, fun s hs => (h.white.pieces s hs).1, fun s hs => (h.black.pieces s hs).1,
    fun s hs => (h.white.pawns s hs).1, fun s hs => (h.black.pawns s hs).1, h.white.king.1, h.black.king.1⟩

theorem tp_P : (Gen.sqTablePawnsWhite, Gen.sqTablePawnsBlack) ∈ tablePairs := by simp [tablePairs]
theorem tp_N : (Gen.sqTableKnightsWhite, Gen.sqTableKnightsBlack) ∈ tablePairs := by simp [tablePairs]
theorem tp_B : (Gen.sqTableBishopsWhite, Gen.sqTableBishopsBlack) ∈ tablePairs := by simp [tablePairs]
theorem tp_R : (Gen.sqTableRooksWhite, Gen.sqTableRooksBlack) ∈ tablePairs := by simp [tablePairs]
theorem tp_Q : (Gen.sqTableQueensWhite, Gen.sqTableQueensBlack) ∈ tablePairs := by simp [tablePairs]
theorem tp_KM : (Gen.sqTableKingMidgameWhite, Gen.sqTableKingMidgameBlack) ∈ tablePairs := by simp [tablePairs]
theorem tp_KE : (Gen.sqTableKingEndgameWhite, Gen.sqTableKingEndgameBlack) ∈ tablePairs := by simp [tablePairs]

theorem pieceSquareScore_okVal_mirror (blend : Blend) {p : Position} (h : PstOk p) :
    okVal (pieceSquareScore blend (mirror p)) = okVal (pieceSquareScore blend p) := by
  unfold pieceSquareScore
  simp only [okVal_bind, okVal_pure, whiteTurn_mirror h.flags, side_mirror, okVal_tgetI]
  have m1 : okVal (nonPawnMaterial (mirror p).board (mirror p).whitePieces)
      = okVal (nonPawnMaterial p.board p.blackPieces) := nonPawnMaterial_mirror h.size h.bytes _
  have m2 : okVal (nonPawnMaterial (mirror p).board (mirror p).blackPieces)
      = okVal (nonPawnMaterial p.board p.whitePieces) := nonPawnMaterial_mirror h.size h.bytes _
  have s1 : okVal (sidePst (mirror p).board (mirrorSide (p.side (!true))) pstKnightsWhite pstBishopsWhite
      pstRooksWhite pstQueensWhite pstPawnsWhite)
      = okVal (sidePst p.board (p.side false) pstKnightsBlack pstBishopsBlack pstRooksBlack
          pstQueensBlack pstPawnsBlack) :=
    sidePst_mirror h.size h.bytes h.bPieces h.bPawns (tabMir_bw tp_N) (tabMir_bw tp_B) (tabMir_bw tp_R)
      (tabMir_bw tp_Q) (tabMir_bw tp_P)
  have s2 : okVal (sidePst (mirror p).board (mirrorSide (p.side (!false))) pstKnightsBlack pstBishopsBlack
      pstRooksBlack pstQueensBlack pstPawnsBlack)
      = okVal (sidePst p.board (p.side true) pstKnightsWhite pstBishopsWhite pstRooksWhite
          pstQueensWhite pstPawnsWhite) :=
    sidePst_mirror h.size h.bytes h.wPieces h.wPawns (tabMir_wb tp_N) (tabMir_wb tp_B) (tabMir_wb tp_R)
      (tabMir_wb tp_Q) (tabMir_wb tp_P)
  have k1 : pstKingMidWhite[(mirror p).whiteKing]? = pstKingMidBlack[p.blackKing]? := (tabMir_bw tp_KM _ h.bKing).1
  have k2 : pstKingEndWhite[(mirror p).whiteKing]? = pstKingEndBlack[p.blackKing]? := (tabMir_bw tp_KE _ h.bKing).1
  have k3 : pstKingMidBlack[(mirror p).blackKing]? = pstKingMidWhite[p.whiteKing]? := (tabMir_wb tp_KM _ h.wKing).1
  have k4 : pstKingEndBlack[(mirror p).blackKing]? = pstKingEndWhite[p.whiteKing]? := (tabMir_wb tp_KE _ h.wKing).1
  rw [m1, m2, s1, s2, k1, k2, k3, k4]
  cases okVal (nonPawnMaterial p.board p.whitePieces) <;>
  cases okVal (nonPawnMaterial p.board p.blackPieces) <;>
  cases okVal (sidePst p.board (p.side true) pstKnightsWhite pstBishopsWhite pstRooksWhite pstQueensWhite pstPawnsWhite) <;>
  cases okVal (sidePst p.board (p.side false) pstKnightsBlack pstBishopsBlack pstRooksBlack pstQueensBlack pstPawnsBlack) <;>
  cases pstKingMidWhite[p.whiteKing]? <;> cases pstKingEndWhite[p.whiteKing]? <;>
  cases pstKingMidBlack[p.blackKing]? <;> cases pstKingEndBlack[p.blackKing]? <;>
  simp only [Option.bind]
  rename_i wm bm w b wkm wke bkm bke
  rw [Nat.add_comm bm wm]
  cases whiteTurn p <;> simp <;> omega

theorem pieceSquareScore_isSome (blend : Blend) {p : Position} (h : PstOk p) :
    (okVal (pieceSquareScore blend p)).isSome := by
  unfold pieceSquareScore
  simp only [okVal_bind, okVal_pure, okVal_tgetI]
  obtain ⟨wm, h1⟩ := Option.isSome_iff_exists.1 (nonPawnMaterial_isSome h.size h.wPieces)
  obtain ⟨bm, h2⟩ := Option.isSome_iff_exists.1 (nonPawnMaterial_isSome h.size h.bPieces)
  have i3 : (okVal (sidePst p.board (p.side true) pstKnightsWhite pstBishopsWhite pstRooksWhite
      pstQueensWhite pstPawnsWhite)).isSome :=
    sidePst_isSome (sd := p.side true) h.size h.wPieces h.wPawns
      (tabMir_wb tp_N) (tabMir_wb tp_B) (tabMir_wb tp_R) (tabMir_wb tp_Q) (tabMir_wb tp_P)
  have i4 : (okVal (sidePst p.board (p.side false) pstKnightsBlack pstBishopsBlack pstRooksBlack
      pstQueensBlack pstPawnsBlack)).isSome :=
    sidePst_isSome (sd := p.side false) h.size h.bPieces h.bPawns
      (tabMir_bw tp_N) (tabMir_bw tp_B) (tabMir_bw tp_R) (tabMir_bw tp_Q) (tabMir_bw tp_P)
  obtain ⟨w, h3⟩ := Option.isSome_iff_exists.1 i3
  obtain ⟨b, h4⟩ := Option.isSome_iff_exists.1 i4
  obtain ⟨k1, h5⟩ := Option.isSome_iff_exists.1 (tabMir_wb tp_KM _ h.wKing).2
  obtain ⟨k2, h6⟩ := Option.isSome_iff_exists.1 (tabMir_wb tp_KE _ h.wKing).2
  obtain ⟨k3, h7⟩ := Option.isSome_iff_exists.1 (tabMir_bw tp_KM _ h.bKing).2
  obtain ⟨k4, h8⟩ := Option.isSome_iff_exists.1 (tabMir_bw tp_KE _ h.bKing).2
  have h5' : pstKingMidWhite[p.whiteKing]? = some k1 := h5
  have h6' : pstKingEndWhite[p.whiteKing]? = some k2 := h6
  have h7' : pstKingMidBlack[p.blackKing]? = some k3 := h7
  have h8' : pstKingEndBlack[p.blackKing]? = some k4 := h8
  simp [h1, h2, h3, h4, h5', h6', h7', h8']

/-- the material + piece-square score (from the mover's point of view) of the colour-flipped position is
    the same, for every blend function; neither side panics -/
theorem pieceSquareScore_mirror_pstOk (blend : Blend) {p : Position} (h : PstOk p) :
    pieceSquareScore blend (mirror p) = pieceSquareScore blend p :=
  eq_of_okVal (pieceSquareScore_okVal_mirror blend h) (isOk_of_isSome (pieceSquareScore_isSome blend h))

end Magog.Mir
