import Magog.Lemmas.MakeMoveAbs
import Magog.Lemmas.CountKing

/-! C02, second half, the board equation: piece placement after `makeMove` is the placement the rules
    define (`Spec.apply`), on all 64 squares, by move shape: plain move or capture, promotion,
    en-passant capture, castling king side / queen side. -/

namespace Magog.MMAbs
open Magog Magog.Model Magog.Atk Magog.Geo Magog.Count

/-! ### `absBoard` and single-cell updates -/

theorem absBoard_size (B : Array Nat) : (absBoard B).size = 64 := by
  simp [absBoard]

theorem absBoard_set {B : Array Nat} (hsz : B.size = 128) {s : Nat} (hs : s ∈ sq88) (v : Nat) :
    absBoard (B.setIfInBounds s v) = (absBoard B).setIfInBounds (to64 s) (decodePiece v) := by
  apply Array.ext
  · simp [absBoard]
  · intro i h1 _
    have hi : i < 64 := by simpa [absBoard] using h1
    have hs128 : s < 128 := (mem_sq88.mp hs).1
    rw [Array.getElem_setIfInBounds (by rw [absBoard_size]; exact hi)]
    simp only [absBoard, Array.getElem_ofFn, Array.getD_eq_getD_getElem?, Array.getElem?_setIfInBounds]
    by_cases he : to64 s = i
    · have hse : s = to88 i := by rw [← he, to88_to64 hs]
      simp [he, ← hse, hsz, hs128]
    · have hse : s ≠ to88 i := fun hh => he (by rw [hh, to64_to88 hi])
      simp [he, hse]

theorem to64_inj {s t : Nat} (hs : s ∈ sq88) (ht : t ∈ sq88) (h : s ≠ t) : to64 s ≠ to64 t := by
  intro he
  have := to64_beq s hs t ht
  rw [he] at this
  simp at this
  exact h this

/-! ### the specification's special-move tests -/

theorem isEnPassant_eq {P : Spec.Pos} {mv : Spec.Move} {man : Spec.Man} (h : P.at mv.frm = some man) :
    Spec.isEnPassant P mv =
      (man.kind == .pawn && (Spec.fileOf mv.frm != Spec.fileOf mv.to && (P.at mv.to).isNone)) := by
  obtain ⟨c, k⟩ := man
  cases k <;> simp [Spec.isEnPassant, h]

theorem isCastle_eq {P : Spec.Pos} {mv : Spec.Move} {man : Spec.Man} (h : P.at mv.frm = some man) :
    Spec.isCastle P mv =
      (man.kind == .king && Spec.adiff (Spec.fileOf mv.frm) (Spec.fileOf mv.to) == 2) := by
  obtain ⟨c, k⟩ := man
  cases k <;> simp [Spec.isCastle, h]

theorem decode_zero : decodePiece 0 = none := by decide

theorem promo_fin : ∀ w : Bool, ∀ k ∈ [Queen, Rook, Bishop, Knight],
    ∃ k', decodePromo k = some k' ∧ decodePiece (k ||| bitOf w) = some ⟨colorOf w, k'⟩ ∧ k ≠ 0 := by
  intro w k hk
  simp only [List.mem_cons, List.not_mem_nil, or_false] at hk
  rcases hk with rfl | rfl | rfl | rfl <;> cases w
  all_goals first
    | exact ⟨.queen, by decide, by decide, by decide⟩
    | exact ⟨.rook, by decide, by decide, by decide⟩
    | exact ⟨.bishop, by decide, by decide, by decide⟩
    | exact ⟨.knight, by decide, by decide, by decide⟩

section
variable {p : Position} {m : Move} {fp tp : Nat} {p' : Position} {b : Bool}

/-- the mover stage leaves the board alone unless the king leaves the e-file for the c- or g-file -/
theorem board1_eq (hi : Inv p) (hc : Common p m fp tp) {board1 : Array Nat} {flags1 : Nat} {cur1 : Side}
    (h1 : mmMover p.board p.flags (p.side (whiteTurn p)) m (bitOf (whiteTurn p)) (homeRankOf (whiteTurn p))
      (kFlagOf (whiteTurn p)) (qFlagOf (whiteTurn p)) = .ok (board1, flags1, cur1))
    (hns : fp = kingOf (whiteTurn p) →
      ¬ (fileOf m.frm = Gen.E ∧ (fileOf m.to = Gen.C ∨ fileOf m.to = Gen.G))) :
    board1 = p.board := by
  obtain ⟨s1, s2, s3⟩ := mmMover_spec hc.hfp h1
  obtain ⟨c1, c2, c3, c4, c5, c6, _⟩ := code_facts (whiteTurn p)
  have hki := hc.king_iff hi
  rcases hc.own with hp | ho | hk
  · exact (s1 (hp.trans c1)).1
  · have hnk : m.frm ≠ (p.side (whiteTurn p)).king := fun hh => c4 (hki.mp hh ▸ ho)
    exact (s2 (c6 fp ho) hnk).1
  · have := (s3 (hk ▸ c5) (hki.mpr hk)).2
    have hh := hns hk
    rw [if_neg (fun h => hh ⟨h.1, .inl h.2⟩), if_neg (fun h => hh ⟨h.1, .inr h.2⟩)] at this
    exact this

/-- **plain move or capture** (no promotion, no en-passant capture, no castling) -/
theorem board_plain (hi : Inv p) (hc : Common p m fp tp) (h : makeMove p m = .ok (p', b))
    (hpromo : m.promo = 0) (hnep : ¬ (p.ep = m.to ∧ fp = Pawn ||| bitOf (whiteTurn p)))
    (hns : fp = kingOf (whiteTurn p) → ¬ (fileOf m.frm = Gen.E ∧ (fileOf m.to = Gen.C ∨ fileOf m.to = Gen.G)))
    (hsep : Spec.isEnPassant (abs p) (absMove m) = false) (hsc : Spec.isCastle (abs p) (absMove m) = false) :
    (abs p').board = (Spec.apply (abs p) (absMove m)).board := by
  obtain ⟨board1, flags1, cur1, en1, board2, en2, h1, _, h3, hb, _, _⟩ := makeMove_fields h
  have hb1 := board1_eq hi hc h1 hns
  subst hb1
  have hb2 := mmBoard_spec hc.hfp h3
  rw [if_pos hpromo, if_neg hnep] at hb2
  have hsz := hi.board.size
  rw [apply_board (mv := absMove m) hc.at_frm]
  simp only [hsep, hsc, Bool.false_eq_true, if_false]
  show absBoard p'.board = _
  rw [hb, hb2, absBoard_set (by simp [hsz]) hc.frm88, absBoard_set hsz hc.to88, decode_zero, hc.facts.1]
  have hpr : (absMove m).promo = none := by simp [absMove, hpromo, decodePromo]
  simp only [hpr]
  exact Array.setIfInBounds_comm _ _ (to64_inj hc.to88 hc.frm88 hc.frm_ne_to.symm)

/-- **promotion** (with or without capture) -/
theorem board_promo (hi : Inv p) (hc : Common p m fp tp) (h : makeMove p m = .ok (p', b))
    (hpawn : fp = pawnOf (whiteTurn p)) (hpromo : m.promo ∈ [Queen, Rook, Bishop, Knight])
    (hsep : Spec.isEnPassant (abs p) (absMove m) = false) :
    (abs p').board = (Spec.apply (abs p) (absMove m)).board := by
  obtain ⟨board1, flags1, cur1, en1, board2, en2, h1, _, h3, hb, _, _⟩ := makeMove_fields h
  obtain ⟨c1, c2, _⟩ := code_facts (whiteTurn p)
  have hb1 := board1_eq hi hc h1 (fun hk => absurd (hpawn.symm.trans hk) c2)
  subst hb1
  obtain ⟨k', hk1, hk2, hk0⟩ := promo_fin (whiteTurn p) m.promo hpromo
  have hb2 := mmBoard_spec hc.hfp h3
  rw [if_neg hk0] at hb2
  have hsz := hi.board.size
  have hsc : Spec.isCastle (abs p) (absMove m) = false := by
    rw [isCastle_eq (mv := absMove m) hc.at_frm]
    have := hc.facts.2.2.1
    simp only at this ⊢
    rw [this]
    simp [hpawn, c2]
  rw [apply_board (mv := absMove m) hc.at_frm]
  simp only [hsep, hsc, Bool.false_eq_true, if_false]
  show absBoard p'.board = _
  rw [hb, hb2, absBoard_set (by simp [hsz]) hc.frm88, absBoard_set hsz hc.to88, decode_zero, hk2]
  have hpr : (absMove m).promo = some k' := hk1
  simp only [hpr]
  exact Array.setIfInBounds_comm _ _ (to64_inj hc.to88 hc.frm88 hc.frm_ne_to.symm)

end

/-! ### en-passant capture -/

theorem ep_kill_fin : ∀ f ∈ sq88, ∀ w : Bool, ∀ d ∈ [255, 1], addb (addb f (advOf w)) d ∈ sq88 →
    (fileOf (addb (addb f (advOf w)) d) + rankOf f) % 256 ∈ sq88 ∧
    to64 ((fileOf (addb (addb f (advOf w)) d) + rankOf f) % 256)
      = Spec.mkSq (Spec.fileOf (to64 (addb (addb f (advOf w)) d))) (Spec.rankOf (to64 f)) ∧
    (fileOf (addb (addb f (advOf w)) d) + rankOf f) % 256 ≠ addb (addb f (advOf w)) d ∧
    (fileOf (addb (addb f (advOf w)) d) + rankOf f) % 256 ≠ f ∧
    (Spec.fileOf (to64 f) != Spec.fileOf (to64 (addb (addb f (advOf w)) d))) = true := by
  decide

section
variable {p : Position} {m : Move} {fp tp : Nat} {p' : Position} {b : Bool}

/-- **en-passant capture**: the passed pawn disappears from the square beside the mover's origin -/
theorem board_ep (hi : Inv p) (hc : Common p m fp tp) (h : makeMove p m = .ok (p', b))
    (hpawn : fp = pawnOf (whiteTurn p)) (hpromo : m.promo = 0) (hep : p.ep = m.to) (htp : tp = 0)
    (d : Nat) (hd : d = 255 ∨ d = 1) (hto : m.to = addb (addb m.frm (advOf (whiteTurn p))) d) :
    (abs p').board = (Spec.apply (abs p) (absMove m)).board := by
  obtain ⟨board1, flags1, cur1, en1, board2, en2, h1, _, h3, hb, _, _⟩ := makeMove_fields h
  obtain ⟨c1, c2, _⟩ := code_facts (whiteTurn p)
  have hb1 := board1_eq hi hc h1 (fun hk => absurd (hpawn.symm.trans hk) c2)
  subst hb1
  have hb2 := mmBoard_spec hc.hfp h3
  rw [if_pos hpromo, if_pos ⟨hep, hpawn.trans c1⟩] at hb2
  have hsz := hi.board.size
  obtain ⟨k1, k2, k3, k4, k5⟩ := ep_kill_fin m.frm hc.frm88 (whiteTurn p) d (mem_255_1 hd) (hto ▸ hc.to88)
  rw [← hto] at k1 k2 k3 k4 k5
  have hkp : (kindOf fp == Spec.Kind.pawn) = true := by rw [hc.facts.2.1, hpawn]; simp
  have hkk : (kindOf fp == Spec.Kind.king) = false := by rw [hc.facts.2.2.1, hpawn]; simp [c2]
  have hsep : Spec.isEnPassant (abs p) (absMove m) = true := by
    rw [isEnPassant_eq (mv := absMove m) hc.at_frm]
    show (kindOf fp == Spec.Kind.pawn && (Spec.fileOf (to64 m.frm) != Spec.fileOf (to64 m.to) &&
      ((abs p).at (to64 m.to)).isNone)) = true
    rw [hkp, k5, hc.at_to, htp, decode_zero]
    rfl
  have hsc : Spec.isCastle (abs p) (absMove m) = false := by
    rw [isCastle_eq (mv := absMove m) hc.at_frm]
    show (kindOf fp == Spec.Kind.king && _) = false
    rw [hkk]
    rfl
  rw [apply_board (mv := absMove m) hc.at_frm]
  simp only [hsep, hsc, Bool.false_eq_true, if_false, if_true]
  show absBoard p'.board = _
  rw [hb, hb2, absBoard_set (by simp [hsz]) hc.frm88, absBoard_set (by simp [hsz]) k1,
    absBoard_set hsz hc.to88, decode_zero, hc.facts.1, k2]
  have hpr : (absMove m).promo = none := by simp [absMove, hpromo, decodePromo]
  simp only [hpr]
  show _ = (((absBoard p.board).setIfInBounds (to64 m.frm) none).setIfInBounds (to64 m.to) _).setIfInBounds
    (Spec.mkSq (Spec.fileOf (to64 m.to)) (Spec.rankOf (to64 m.frm))) none
  rw [← k2]
  have n1 : to64 m.frm ≠ to64 m.to := to64_inj hc.frm88 hc.to88 hc.frm_ne_to
  have n2 : to64 m.frm ≠ to64 ((fileOf m.to + rankOf m.frm) % 256) := to64_inj hc.frm88 k1 (Ne.symm k4)
  rw [Array.setIfInBounds_comm (xs := absBoard p.board) none _ n1,
    Array.setIfInBounds_comm (xs := (absBoard p.board).setIfInBounds (to64 m.to) _) none none n2]

end

/-! ### castling -/

theorem set4_comm {α} (A : Array α) {a b c d : Nat} (x y z u : α) (hab : a ≠ b) (hac : a ≠ c) (had : a ≠ d)
    (hbc : b ≠ c) (hbd : b ≠ d) :
    (((A.setIfInBounds c x).setIfInBounds d y).setIfInBounds b z).setIfInBounds a u =
      (((A.setIfInBounds a u).setIfInBounds b z).setIfInBounds c x).setIfInBounds d y := by
  rw [Array.setIfInBounds_comm (xs := (A.setIfInBounds c x).setIfInBounds d y) z u hab.symm,
    Array.setIfInBounds_comm (xs := A.setIfInBounds c x) y u had.symm,
    Array.setIfInBounds_comm (xs := A) x u hac.symm,
    Array.setIfInBounds_comm (xs := (A.setIfInBounds a u).setIfInBounds c x) y z hbd.symm,
    Array.setIfInBounds_comm (xs := A.setIfInBounds a u) x z hbc.symm]

theorem castleK_fin : ∀ w : Bool,
    fileOf (kingHome88 w) = Gen.E ∧ fileOf (if w then Gen.G1 else Gen.G8) ≠ Gen.C ∧
    fileOf (if w then Gen.G1 else Gen.G8) = Gen.G ∧
    (Gen.H + homeRankOf w) % 256 ∈ sq88 ∧ (Gen.F + homeRankOf w) % 256 ∈ sq88 ∧
    kingHome88 w ≠ (Gen.H + homeRankOf w) % 256 ∧ kingHome88 w ≠ (Gen.F + homeRankOf w) % 256 ∧
    Spec.adiff (Spec.fileOf (to64 (kingHome88 w))) (Spec.fileOf (to64 (if w then Gen.G1 else Gen.G8))) = 2 ∧
    (Spec.fileOf (to64 (if w then Gen.G1 else Gen.G8)) == 6) = true ∧
    to64 ((Gen.H + homeRankOf w) % 256) = Spec.mkSq 7 (Spec.rankOf (to64 (kingHome88 w))) ∧
    to64 ((Gen.F + homeRankOf w) % 256) = Spec.mkSq 5 (Spec.rankOf (to64 (kingHome88 w))) ∧
    to64 (kingHome88 w) ≠ to64 (if w then Gen.G1 else Gen.G8) ∧
    to64 (kingHome88 w) ≠ to64 ((Gen.H + homeRankOf w) % 256) ∧
    to64 (kingHome88 w) ≠ to64 ((Gen.F + homeRankOf w) % 256) ∧
    to64 (if w then Gen.G1 else Gen.G8) ≠ to64 ((Gen.H + homeRankOf w) % 256) ∧
    to64 (if w then Gen.G1 else Gen.G8) ≠ to64 ((Gen.F + homeRankOf w) % 256) := by decide

theorem castleQ_fin : ∀ w : Bool,
    fileOf (kingHome88 w) = Gen.E ∧ fileOf (if w then Gen.C1 else Gen.C8) = Gen.C ∧
    (Gen.A + homeRankOf w) % 256 ∈ sq88 ∧ (Gen.D + homeRankOf w) % 256 ∈ sq88 ∧
    kingHome88 w ≠ (Gen.A + homeRankOf w) % 256 ∧ kingHome88 w ≠ (Gen.D + homeRankOf w) % 256 ∧
    Spec.adiff (Spec.fileOf (to64 (kingHome88 w))) (Spec.fileOf (to64 (if w then Gen.C1 else Gen.C8))) = 2 ∧
    (Spec.fileOf (to64 (if w then Gen.C1 else Gen.C8)) == 6) = false ∧
    to64 ((Gen.A + homeRankOf w) % 256) = Spec.mkSq 0 (Spec.rankOf (to64 (kingHome88 w))) ∧
    to64 ((Gen.D + homeRankOf w) % 256) = Spec.mkSq 3 (Spec.rankOf (to64 (kingHome88 w))) ∧
    to64 (kingHome88 w) ≠ to64 (if w then Gen.C1 else Gen.C8) ∧
    to64 (kingHome88 w) ≠ to64 ((Gen.A + homeRankOf w) % 256) ∧
    to64 (kingHome88 w) ≠ to64 ((Gen.D + homeRankOf w) % 256) ∧
    to64 (if w then Gen.C1 else Gen.C8) ≠ to64 ((Gen.A + homeRankOf w) % 256) ∧
    to64 (if w then Gen.C1 else Gen.C8) ≠ to64 ((Gen.D + homeRankOf w) % 256) := by decide

section
variable {p : Position} {m : Move} {fp tp : Nat} {p' : Position} {b : Bool}

/-- the shared part of both castling proofs: the model board as a four-cell update, abstracted -/
theorem board_castle_model (hi : Inv p) (hc : Common p m fp tp) (h : makeMove p m = .ok (p', b))
    (hk : fp = kingOf (whiteTurn p)) (hpromo : m.promo = 0) {rf rt : Nat}
    (hrf : rf ∈ sq88) (hrt : rt ∈ sq88) (hne1 : m.frm ≠ rf) (hne2 : m.frm ≠ rt)
    (hshuffle : ∀ board1 flags1 cur1,
      mmMover p.board p.flags (p.side (whiteTurn p)) m (bitOf (whiteTurn p)) (homeRankOf (whiteTurn p))
        (kFlagOf (whiteTurn p)) (qFlagOf (whiteTurn p)) = .ok (board1, flags1, cur1) →
      board1 = (p.board.setIfInBounds rf 0).setIfInBounds rt (Rook ||| bitOf (whiteTurn p))) :
    absBoard p'.board =
      ((((absBoard p.board).setIfInBounds (to64 rf) none).setIfInBounds (to64 rt)
        (some ⟨colorOf (whiteTurn p), .rook⟩)).setIfInBounds (to64 m.to)
          (some ⟨colorOf (whiteTurn p), kindOf fp⟩)).setIfInBounds (to64 m.frm) none := by
  obtain ⟨board1, flags1, cur1, en1, board2, en2, h1, _, h3, hb, _, _⟩ := makeMove_fields h
  have hb1 := hshuffle _ _ _ h1
  subst hb1
  obtain ⟨c1, c2, c3, c4, c5, c6, r1, r2, r3, r4⟩ := code_facts (whiteTurn p)
  have hfp1 : ((p.board.setIfInBounds rf 0).setIfInBounds rt (Rook ||| bitOf (whiteTurn p)))[m.frm]? = some fp := by
    rw [Array.getElem?_setIfInBounds, if_neg (Ne.symm hne2), Array.getElem?_setIfInBounds, if_neg (Ne.symm hne1)]
    exact hc.hfp
  have hb2 := mmBoard_spec hfp1 h3
  rw [if_pos hpromo, if_neg (fun hh => c5 (hk ▸ hh.2))] at hb2
  have hsz := hi.board.size
  rw [hb, hb2, absBoard_set (by simp [hsz]) hc.frm88, absBoard_set (by simp [hsz]) hc.to88,
    absBoard_set (by simp [hsz]) hrt, absBoard_set hsz hrf, decode_zero, hc.facts.1, ← r3, r4]

/-- **castling king side**: king e→g, rook h→f -/
theorem board_castleK (hi : Inv p) (hc : Common p m fp tp) (h : makeMove p m = .ok (p', b))
    (hk : fp = kingOf (whiteTurn p)) (hpromo : m.promo = 0) (hhome : m.frm = kingHome88 (whiteTurn p))
    (hto : m.to = (if whiteTurn p then Gen.G1 else Gen.G8)) :
    (abs p').board = (Spec.apply (abs p) (absMove m)).board := by
  obtain ⟨f1, f2, f3, f4, f5, f6, f7, f8, f9, f10, f11, f12, f13, f14, f15, f16⟩ := castleK_fin (whiteTurn p)
  rw [← hhome] at f1 f6 f7 f8 f10 f11 f12 f13 f14
  rw [← hto] at f2 f3 f8 f9 f12 f15 f16
  obtain ⟨c1, c2, c3, c4, c5, _⟩ := code_facts (whiteTurn p)
  have hmodel := board_castle_model hi hc h hk hpromo f4 f5 f6 f7 (by
    intro board1 flags1 cur1 h1
    have := (mmMover_spec hc.hfp h1).2.2 (hk ▸ c5) ((hc.king_iff hi).mpr hk)
    rw [if_neg (fun hh => f2 hh.2), if_pos ⟨f1, f3⟩] at this
    exact this.2)
  have hkp : (kindOf fp == Spec.Kind.pawn) = false := by rw [hc.facts.2.1, hk]; simp [Ne.symm c2]
  have hkk : (kindOf fp == Spec.Kind.king) = true := by rw [hc.facts.2.2.1, hk]; simp
  have hsep : Spec.isEnPassant (abs p) (absMove m) = false := by
    rw [isEnPassant_eq (mv := absMove m) hc.at_frm]
    show (kindOf fp == Spec.Kind.pawn && _) = false
    rw [hkp]; rfl
  have hsc : Spec.isCastle (abs p) (absMove m) = true := by
    rw [isCastle_eq (mv := absMove m) hc.at_frm]
    show (kindOf fp == Spec.Kind.king &&
      Spec.adiff (Spec.fileOf (to64 m.frm)) (Spec.fileOf (to64 m.to)) == 2) = true
    rw [hkk, f8]; rfl
  have hpr : (absMove m).promo = none := by simp [absMove, hpromo, decodePromo]
  have hf6 : (Spec.fileOf (absMove m).to == 6) = true := f9
  rw [apply_board (mv := absMove m) hc.at_frm]
  simp only [hsep, hsc, hpr, hf6, Bool.false_eq_true, if_false, if_true]
  show absBoard p'.board = (((((absBoard p.board).setIfInBounds (to64 m.frm) none).setIfInBounds (to64 m.to) _).setIfInBounds
    (Spec.mkSq 7 (Spec.rankOf (to64 m.frm))) none).setIfInBounds (Spec.mkSq 5 (Spec.rankOf (to64 m.frm)))
      (some ⟨colorOf (whiteTurn p), .rook⟩))
  rw [hmodel, ← f10, ← f11]
  exact set4_comm _ _ _ _ _ f12 f13 f14 f15 f16

/-- **castling queen side**: king e→c, rook a→d -/
theorem board_castleQ (hi : Inv p) (hc : Common p m fp tp) (h : makeMove p m = .ok (p', b))
    (hk : fp = kingOf (whiteTurn p)) (hpromo : m.promo = 0) (hhome : m.frm = kingHome88 (whiteTurn p))
    (hto : m.to = (if whiteTurn p then Gen.C1 else Gen.C8)) :
    (abs p').board = (Spec.apply (abs p) (absMove m)).board := by
  obtain ⟨f1, f3, f4, f5, f6, f7, f8, f9, f10, f11, f12, f13, f14, f15, f16⟩ := castleQ_fin (whiteTurn p)
  rw [← hhome] at f1 f6 f7 f8 f10 f11 f12 f13 f14
  rw [← hto] at f3 f8 f9 f12 f15 f16
  obtain ⟨c1, c2, c3, c4, c5, _⟩ := code_facts (whiteTurn p)
  have hmodel := board_castle_model hi hc h hk hpromo f4 f5 f6 f7 (by
    intro board1 flags1 cur1 h1
    have := (mmMover_spec hc.hfp h1).2.2 (hk ▸ c5) ((hc.king_iff hi).mpr hk)
    rw [if_pos ⟨f1, f3⟩] at this
    exact this.2)
  have hkp : (kindOf fp == Spec.Kind.pawn) = false := by rw [hc.facts.2.1, hk]; simp [Ne.symm c2]
  have hkk : (kindOf fp == Spec.Kind.king) = true := by rw [hc.facts.2.2.1, hk]; simp
  have hsep : Spec.isEnPassant (abs p) (absMove m) = false := by
    rw [isEnPassant_eq (mv := absMove m) hc.at_frm]
    show (kindOf fp == Spec.Kind.pawn && _) = false
    rw [hkp]; rfl
  have hsc : Spec.isCastle (abs p) (absMove m) = true := by
    rw [isCastle_eq (mv := absMove m) hc.at_frm]
    show (kindOf fp == Spec.Kind.king &&
      Spec.adiff (Spec.fileOf (to64 m.frm)) (Spec.fileOf (to64 m.to)) == 2) = true
    rw [hkk, f8]; rfl
  have hpr : (absMove m).promo = none := by simp [absMove, hpromo, decodePromo]
  have hf6 : (Spec.fileOf (absMove m).to == 6) = false := f9
  rw [apply_board (mv := absMove m) hc.at_frm]
  simp only [hsep, hsc, hpr, hf6, Bool.false_eq_true, if_false, if_true]
  show absBoard p'.board = (((((absBoard p.board).setIfInBounds (to64 m.frm) none).setIfInBounds (to64 m.to) _).setIfInBounds
    (Spec.mkSq 0 (Spec.rankOf (to64 m.frm))) none).setIfInBounds (Spec.mkSq 3 (Spec.rankOf (to64 m.frm)))
      (some ⟨colorOf (whiteTurn p), .rook⟩))
  rw [hmodel, ← f10, ← f11]
  exact set4_comm _ _ _ _ _ f12 f13 f14 f15 f16

end

/-! ### assembly: every generated move -/

theorem push_fin : ∀ f ∈ sq88, ∀ w : Bool, addb f (advOf w) ∈ sq88 →
    Spec.fileOf (to64 f) = Spec.fileOf (to64 (addb f (advOf w))) ∧
    (if w then addb f (advOf w) - Gen.UnitRank else addb f (advOf w) + Gen.UnitRank) = f := by decide

theorem dbl_fin : ∀ f ∈ sq88, ∀ w : Bool, addb (addb f (advOf w)) (advOf w) ∈ sq88 →
    Spec.fileOf (to64 f) = Spec.fileOf (to64 (addb (addb f (advOf w)) (advOf w))) ∧
    (rankOf f = startRankOf w →
      rankOf (addb (addb f (advOf w)) (advOf w)) ≠ (if w then Gen.Rank6 else Gen.Rank3)) := by decide

theorem king_step_fin : ∀ f ∈ sq88, ∀ d ∈ kingDirs, addb f d ∈ sq88 →
    Spec.adiff (Spec.fileOf (to64 f)) (Spec.fileOf (to64 (addb f d))) ≠ 2 := by decide

theorem pawn_ne_enemy_pawn : ∀ w : Bool, pawnOf w ≠ pawnOf (!w) := by decide

theorem ep_behind {p : Position} (hok : FenSpec.EpOk p) :
    p.board[p.ep]? = some 0 ∧ rankOf p.ep = (if whiteTurn p then Gen.Rank6 else Gen.Rank3) ∧
    p.board[if whiteTurn p then p.ep - Gen.UnitRank else p.ep + Gen.UnitRank]? = some (pawnOf (!whiteTurn p)) := by
  obtain ⟨_, _, h3, h4⟩ := hok
  cases hw : whiteTurn p
  · simp only [hw, Bool.false_eq_true, if_false] at h4 ⊢
    exact ⟨h3, h4.1, h4.2.1⟩
  · simp only [hw, if_true] at h4 ⊢
    exact ⟨h3, h4.1, h4.2.1⟩

theorem epOk_of_sq88 {p : Position} (hi : Inv p) {t : Nat} (ht : t ∈ sq88) (h : p.ep = t) : FenSpec.EpOk p := by
  rcases hi.ep with hinv | hok
  · have := (mem_sq88.mp ht).1
    rw [← h, hinv] at this
    exact absurd this (by decide)
  · exact hok

section
variable {p : Position} {m : Move} {fp tp : Nat} {p' : Position} {b : Bool}

theorem sep_not_pawn (hc : Common p m fp tp) (hne : fp ≠ pawnOf (whiteTurn p)) :
    Spec.isEnPassant (abs p) (absMove m) = false := by
  rw [isEnPassant_eq (mv := absMove m) hc.at_frm]
  show (kindOf fp == Spec.Kind.pawn && _) = false
  rw [hc.facts.2.1]
  simp [hne]

theorem sep_same_file (hc : Common p m fp tp) (hf : Spec.fileOf (to64 m.frm) = Spec.fileOf (to64 m.to)) :
    Spec.isEnPassant (abs p) (absMove m) = false := by
  rw [isEnPassant_eq (mv := absMove m) hc.at_frm]
  show (_ && (Spec.fileOf (to64 m.frm) != Spec.fileOf (to64 m.to) && _)) = false
  rw [hf]
  simp

theorem sep_occupied (hi : Inv p) (hc : Common p m fp tp) (hx : tp ≠ 0) :
    Spec.isEnPassant (abs p) (absMove m) = false := by
  rw [isEnPassant_eq (mv := absMove m) hc.at_frm]
  show (_ && (_ && ((abs p).at (to64 m.to)).isNone)) = false
  rw [hc.at_to, decode_isNone (hc.tp_code hi)]
  simp [hx]

theorem sc_not_king (hc : Common p m fp tp) (hne : fp ≠ kingOf (whiteTurn p)) :
    Spec.isCastle (abs p) (absMove m) = false := by
  rw [isCastle_eq (mv := absMove m) hc.at_frm]
  show (kindOf fp == Spec.Kind.king && _) = false
  rw [hc.facts.2.2.1]
  simp [hne]

theorem sc_step (hc : Common p m fp tp)
    (hd : Spec.adiff (Spec.fileOf (to64 m.frm)) (Spec.fileOf (to64 m.to)) ≠ 2) :
    Spec.isCastle (abs p) (absMove m) = false := by
  rw [isCastle_eq (mv := absMove m) hc.at_frm]
  show (_ && Spec.adiff (Spec.fileOf (to64 m.frm)) (Spec.fileOf (to64 m.to)) == 2) = false
  simp [hd]

theorem mem_promos {k : Nat} (h : PromoOk k) (h0 : k ≠ 0) : k ∈ [Queen, Rook, Bishop, Knight] := by
  rcases h with h | h | h | h | h
  · exact absurd h h0
  all_goals simp [h]

/-- **piece placement** after `makeMove` is the placement the rules define, for every generated move -/
theorem abs_board_eq (hi : Inv p) (hg : GenCase p m) (hc : Common p m fp tp)
    (h : makeMove p m = .ok (p', b)) :
    (abs p').board = (Spec.apply (abs p) (absMove m)).board := by
  obtain ⟨c1, c2, c3, c4, c5, c6, _⟩ := code_facts (whiteTurn p)
  have fp_of : ∀ v, p.board[m.frm]? = some v → fp = v := fun v hv => by
    have := hc.hfp; rw [hv] at this; cases this; rfl
  have tp_of : ∀ v, p.board[m.to]? = some v → tp = v := fun v hv => by
    have := hc.htp; rw [hv] at this; cases this; rfl
  cases hg with
  | push hfrm hpawn hto hto88 hempty hep hpromo =>
    have hfp := fp_of _ hpawn
    obtain ⟨e1, e2⟩ := push_fin _ hfrm _ (hto ▸ hto88)
    have hsep := sep_same_file hc (by rw [hto]; exact e1)
    by_cases hp0 : m.promo = 0
    · refine board_plain hi hc h hp0 ?_ (fun hk => absurd (hfp.symm.trans hk) c2) hsep
        (sc_not_king hc (hfp ▸ c2))
      rintro ⟨he, _⟩
      have hb := (ep_behind (epOk_of_sq88 hi hto88 he)).2.2
      rw [he, hto, e2, hpawn] at hb
      exact pawn_ne_enemy_pawn _ (Option.some.inj hb)
    · exact board_promo hi hc h hfp (mem_promos hpromo hp0) hsep
  | dbl hfrm hpawn hrank hto hto88 hempty hep hpromo =>
    have hfp := fp_of _ hpawn
    obtain ⟨e1, e2⟩ := dbl_fin _ hfrm _ (hto ▸ hto88)
    refine board_plain hi hc h hpromo ?_ (fun hk => absurd (hfp.symm.trans hk) c2)
      (sep_same_file hc (by rw [hto]; exact e1)) (sc_not_king hc (hfp ▸ c2))
    rintro ⟨he, _⟩
    have hr := (ep_behind (epOk_of_sq88 hi hto88 he)).2.1
    rw [he, hto] at hr
    exact e2 hrank hr
  | capture hfrm hpawn d hd hto hto88 x hx hen hep hpromo =>
    have hfp := fp_of _ hpawn
    have htx := tp_of _ hx
    have hx0 : tp ≠ 0 := by
      intro h0
      rw [← htx, h0] at hen
      exact hen (Nat.zero_and _)
    have hsep := sep_occupied hi hc hx0
    by_cases hp0 : m.promo = 0
    · refine board_plain hi hc h hp0 ?_ (fun hk => absurd (hfp.symm.trans hk) c2) hsep
        (sc_not_king hc (hfp ▸ c2))
      rintro ⟨he, _⟩
      have hb := (ep_behind (epOk_of_sq88 hi hto88 he)).1
      rw [he, hc.htp] at hb
      cases hb
      exact hx0 rfl
    · exact board_promo hi hc h hfp (mem_promos hpromo hp0) hsep
  | enpassant hfrm hpawn d hd hto hepsq hepok hep hpromo =>
    have h0 := hepok.2.2.1
    rw [← hepsq] at h0
    exact board_ep hi hc h (fp_of _ hpawn) hpromo hepsq.symm (tp_of _ h0) d hd hto
  | officer hfrm c hcc hpc hto88 x hx hown hep hpromo =>
    have hfp := fp_of _ hpc
    have hnp : fp ≠ pawnOf (whiteTurn p) := fun hh => c3 (hh ▸ hfp ▸ hcc)
    have hnk : fp ≠ kingOf (whiteTurn p) := fun hh => c4 (hh ▸ hfp ▸ hcc)
    exact board_plain hi hc h hpromo (fun hh => c6 c hcc (hfp ▸ hh.2)) (fun hk => absurd hk hnk)
      (sep_not_pawn hc hnp) (sc_not_king hc hnk)
  | king hk d hd hto hto88 x hx hown hep hpromo =>
    have hfk := (hc.king_iff hi).mp hk
    have hnp : fp ≠ pawnOf (whiteTurn p) := fun hh => c2 (hh.symm.trans hfk)
    refine board_plain hi hc h hpromo (fun hh => c5 (hfk ▸ hh.2)) ?_ (sep_not_pawn hc hnp)
      (sc_step hc (by rw [hto]; exact king_step_fin _ hc.frm88 d hd (hto ▸ hto88)))
    rintro _ ⟨hE, hCG⟩
    have := king_step_not_castle m.frm hd hE
    rw [← hto] at this
    rcases hCG with hC | hG
    · exact this.1 hC
    · exact this.2 hG
  | castleK hk hflag hhome hto hempty hep hpromo =>
    exact board_castleK hi hc h ((hc.king_iff hi).mp hk) hpromo hhome hto
  | castleQ hk hflag hhome hto hempty hep hpromo =>
    exact board_castleQ hi hc h ((hc.king_iff hi).mp hk) hpromo hhome hto

end

end Magog.MMAbs
