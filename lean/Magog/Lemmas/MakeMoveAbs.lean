import Magog.Lemmas.MMAbsStages
import Magog.AbsMove

/-! C02, second half: `makeMove` commutes with the abstraction to the rules-of-chess specification
    (`abs p' = Spec.apply (abs p) (absMove m)`) for every generated move on a well-formed position.
    This file: common facts of generated moves, the flag arithmetic, side to move, en-passant target,
    castling rights. The board equation is in `MakeMoveAbsBoard.lean`. -/

namespace Magog.MMAbs
open Magog Magog.Model Magog.Atk Magog.Geo Magog.Count

/-! ### finite facts about piece codes -/

def kindOf (v : Nat) : Spec.Kind :=
  match decodePiece v with
  | some m => m.kind
  | none => .pawn

def ownCodes (w : Bool) : List Nat := pawnOf w :: kingOf w :: officersOf w

theorem own_facts : ∀ w : Bool, ∀ fp ∈ ownCodes w,
    decodePiece fp = some ⟨colorOf w, kindOf fp⟩ ∧
    (kindOf fp == .pawn) = (fp == pawnOf w) ∧ (kindOf fp == .king) = (fp == kingOf w) ∧
    fp &&& bitOf w ≠ 0 ∧ fp &&& bitOf (!w) = 0 ∧ fp ∈ pieceCodes := by decide

theorem code_facts : ∀ w : Bool,
    pawnOf w = Pawn ||| bitOf w ∧ pawnOf w ≠ kingOf w ∧ pawnOf w ∉ officersOf w ∧ kingOf w ∉ officersOf w ∧
    kingOf w ≠ Pawn ||| bitOf w ∧ (∀ c ∈ officersOf w, c ≠ Pawn ||| bitOf w) ∧
    rookOf w &&& bitOf w ≠ 0 ∧ rookOf w &&& bitOf (!w) = 0 ∧ rookOf w = Rook ||| bitOf w ∧
    decodePiece (rookOf w) = some ⟨colorOf w, .rook⟩ := by decide

theorem enemy_not_own : ∀ w : Bool, ∀ x ∈ 0 :: pieceCodes, x &&& bitOf (!w) ≠ 0 → x &&& bitOf w = 0 := by
  decide

theorem mem_ownCodes {w : Bool} {fp : Nat} (h : fp = pawnOf w ∨ fp ∈ officersOf w ∨ fp = kingOf w) :
    fp ∈ ownCodes w := by
  unfold ownCodes
  rcases h with h | h | h
  · exact List.mem_cons.mpr (.inl h)
  · exact List.mem_cons_of_mem _ (List.mem_cons_of_mem _ h)
  · exact List.mem_cons_of_mem _ (List.mem_cons.mpr (.inl h))

/-! ### common facts of a generated move -/

structure Common (p : Position) (m : Move) (fp tp : Nat) : Prop where
  frm88 : m.frm ∈ sq88
  to88 : m.to ∈ sq88
  hfp : p.board[m.frm]? = some fp
  own : fp = pawnOf (whiteTurn p) ∨ fp ∈ officersOf (whiteTurn p) ∨ fp = kingOf (whiteTurn p)
  htp : p.board[m.to]? = some tp
  notOwn : tp &&& bitOf (whiteTurn p) = 0

theorem king_sq {p : Position} (hi : Inv p) (w : Bool) :
    (p.side w).king ∈ sq88 ∧ p.board[(p.side w).king]? = some (kingOf w) := by
  obtain ⟨h1, h2, h3⟩ := ((inv_side hi w).king _).mp rfl
  exact ⟨mem_sq88.mpr ⟨h1, h2⟩, h3⟩

theorem home_sq88 : ∀ w : Bool, kingHome88 w ∈ sq88 ∧ rookK88 w ∈ sq88 ∧ rookQ88 w ∈ sq88 ∧
    (if w then Gen.G1 else Gen.G8) ∈ sq88 ∧ (if w then Gen.C1 else Gen.C8) ∈ sq88 := by decide

theorem gen_common {p : Position} {m : Move} (hi : Inv p) (hc : GenCase p m) : ∃ fp tp, Common p m fp tp := by
  have hz : ∀ w, 0 &&& bitOf w = 0 := fun w => Nat.zero_and _
  cases hc with
  | push hfrm hpawn hto hto88 hempty hep hpromo =>
    exact ⟨_, 0, hfrm, hto88, hpawn, .inl rfl, hempty, hz _⟩
  | dbl hfrm hpawn hrank hto hto88 hempty hep hpromo =>
    exact ⟨_, 0, hfrm, hto88, hpawn, .inl rfl, hempty, hz _⟩
  | capture hfrm hpawn d hd hto hto88 x hx hen hep hpromo =>
    obtain ⟨h1, h2⟩ := mem_sq88.mp hto88
    obtain ⟨v, hv, hcode⟩ := hi.board.codes _ h1 h2
    rw [hx] at hv; cases hv
    exact ⟨_, x, hfrm, hto88, hpawn, .inl rfl, hx, enemy_not_own _ x (List.mem_cons.mpr hcode) hen⟩
  | enpassant hfrm hpawn d hd hto hepsq hepok hep hpromo =>
    obtain ⟨h1, h2, h3, _⟩ := hepok
    exact ⟨_, 0, hfrm, hepsq ▸ mem_sq88.mpr ⟨h1, h2⟩, hpawn, .inl rfl, hepsq ▸ h3, hz _⟩
  | officer hfrm c hc hpc hto88 x hx hown hep hpromo =>
    exact ⟨c, x, hfrm, hto88, hpc, .inr (.inl hc), hx, hown⟩
  | king hk d hd hto hto88 x hx hown hep hpromo =>
    obtain ⟨h1, h2⟩ := king_sq hi (whiteTurn p)
    exact ⟨_, x, hk ▸ h1, hto88, hk ▸ h2, .inr (.inr rfl), hx, hown⟩
  | castleK hk hflag hhome hto hempty hep hpromo =>
    obtain ⟨h1, h2⟩ := king_sq hi (whiteTurn p)
    exact ⟨_, 0, hk ▸ h1, hto ▸ (home_sq88 _).2.2.2.1, hk ▸ h2, .inr (.inr rfl), hempty, hz _⟩
  | castleQ hk hflag hhome hto hempty hep hpromo =>
    obtain ⟨h1, h2⟩ := king_sq hi (whiteTurn p)
    exact ⟨_, 0, hk ▸ h1, hto ▸ (home_sq88 _).2.2.2.2, hk ▸ h2, .inr (.inr rfl), hempty, hz _⟩

theorem abs_at (p : Position) (s : Nat) : (abs p).at s = (absBoard p.board).getD s none := by
  unfold Spec.Pos.at abs
  rfl

namespace Common
variable {p : Position} {m : Move} {fp tp : Nat}

theorem facts (hc : Common p m fp tp) :
    decodePiece fp = some ⟨colorOf (whiteTurn p), kindOf fp⟩ ∧
    (kindOf fp == .pawn) = (fp == pawnOf (whiteTurn p)) ∧ (kindOf fp == .king) = (fp == kingOf (whiteTurn p)) ∧
    fp &&& bitOf (whiteTurn p) ≠ 0 ∧ fp &&& bitOf (!whiteTurn p) = 0 ∧ fp ∈ pieceCodes :=
  own_facts _ fp (mem_ownCodes hc.own)

/-- the mover's square holds no cell without the mover's colour bit -/
theorem frm_ne (hc : Common p m fp tp) {s v : Nat} (hs : p.board[s]? = some v)
    (hv : v &&& bitOf (whiteTurn p) = 0) : m.frm ≠ s := by
  intro h
  have := hc.hfp
  rw [h, hs] at this
  cases this
  exact hc.facts.2.2.2.1 hv

/-- the destination holds no cell with the mover's colour bit -/
theorem to_ne (hc : Common p m fp tp) {s v : Nat} (hs : p.board[s]? = some v)
    (hv : v &&& bitOf (whiteTurn p) ≠ 0) : m.to ≠ s := by
  intro h
  have := hc.htp
  rw [h, hs] at this
  cases this
  exact hv hc.notOwn

theorem frm_ne_to (hc : Common p m fp tp) : m.frm ≠ m.to :=
  hc.frm_ne hc.htp hc.notOwn

theorem king_iff (hc : Common p m fp tp) (hi : Inv p) :
    m.frm = (p.side (whiteTurn p)).king ↔ fp = kingOf (whiteTurn p) := by
  constructor
  · intro h
    have := (king_sq hi (whiteTurn p)).2
    rw [← h, hc.hfp] at this
    cases this; rfl
  · intro h
    obtain ⟨h1, h2⟩ := mem_sq88.mp hc.frm88
    exact ((inv_side hi _).king _).mpr ⟨h1, h2, h ▸ hc.hfp⟩

theorem tp_code (hc : Common p m fp tp) (hi : Inv p) : tp = 0 ∨ tp ∈ pieceCodes := by
  obtain ⟨h1, h2⟩ := mem_sq88.mp hc.to88
  obtain ⟨v, hv, hcode⟩ := hi.board.codes _ h1 h2
  rw [hc.htp] at hv; cases hv
  exact hcode

/-- the abstract position has the mover's man on the origin square -/
theorem at_frm (hc : Common p m fp tp) :
    (abs p).at (to64 m.frm) = some ⟨colorOf (whiteTurn p), kindOf fp⟩ := by
  rw [abs_at, absBoard_at hc.frm88 hc.hfp, hc.facts.1]

theorem at_to (hc : Common p m fp tp) : (abs p).at (to64 m.to) = decodePiece tp := by
  rw [abs_at, absBoard_at hc.to88 hc.htp]

end Common

/-! ### the flag word -/

/-- the flag word `makeMove` produces, as a function of six Boolean observations of the move -/
def newFlags (f : Nat) (w km c1 c2 c3 c4 : Bool) : Nat :=
  let f1 := if km then clearBits f (kFlagOf w ||| qFlagOf w) else f
  let f2 := if c1 then clearBits f1 (qFlagOf w) else f1
  let f3 := if c2 then clearBits f2 (kFlagOf w) else f2
  let f4 := if c3 then clearBits f3 (qFlagOf (!w)) else f3
  let f5 := if c4 then clearBits f4 (kFlagOf (!w)) else f4
  f5 ^^^ FWhiteTurn

set_option maxRecDepth 100000 in
theorem newFlags_bits : ∀ f < 32, ∀ w km c1 c2 c3 c4 : Bool,
    (newFlags f w km c1 c2 c3 c4 &&& FWhiteTurn != 0) = !(f &&& FWhiteTurn != 0) ∧
    (newFlags f w km c1 c2 c3 c4 &&& kFlagOf w != 0) = ((f &&& kFlagOf w != 0) && !km && !c2) ∧
    (newFlags f w km c1 c2 c3 c4 &&& qFlagOf w != 0) = ((f &&& qFlagOf w != 0) && !km && !c1) ∧
    (newFlags f w km c1 c2 c3 c4 &&& kFlagOf (!w) != 0) = ((f &&& kFlagOf (!w) != 0) && !c4) ∧
    (newFlags f w km c1 c2 c3 c4 &&& qFlagOf (!w) != 0) = ((f &&& qFlagOf (!w) != 0) && !c3) := by
  decide +kernel

theorem makeMove_flags {p : Position} {m : Move} {fp tp : Nat} {p' : Position} {b : Bool}
    (hi : Inv p) (hc : Common p m fp tp) (h : makeMove p m = .ok (p', b)) :
    p'.flags = newFlags p.flags (whiteTurn p) (decide (m.frm = (p.side (whiteTurn p)).king))
      (fileOf m.frm == Gen.A && rankOf m.frm == homeRankOf (whiteTurn p))
      (fileOf m.frm == Gen.H && rankOf m.frm == homeRankOf (whiteTurn p))
      (fileOf m.to == Gen.A && rankOf m.to == homeRankOf (!whiteTurn p))
      (fileOf m.to == Gen.H && rankOf m.to == homeRankOf (!whiteTurn p)) := by
  obtain ⟨board1, flags1, cur1, en1, board2, en2, h1, _, _, _, hf, _⟩ := makeMove_fields h
  obtain ⟨s1, s2, s3⟩ := mmMover_spec hc.hfp h1
  obtain ⟨c1, c2, c3, c4, c5, c6, _⟩ := code_facts (whiteTurn p)
  have hki := hc.king_iff hi
  rw [hf]
  have hfl : flags1 = if decide (m.frm = (p.side (whiteTurn p)).king) = true
      then clearBits p.flags (kFlagOf (whiteTurn p) ||| qFlagOf (whiteTurn p)) else p.flags := by
    rcases hc.own with hp | ho | hk
    · have hnk : m.frm ≠ (p.side (whiteTurn p)).king := fun hh => c2 (hp ▸ hki.mp hh)
      rw [(s1 (hp.trans c1)).2]
      simp [hnk]
    · have hnk : m.frm ≠ (p.side (whiteTurn p)).king := fun hh => c4 (hki.mp hh ▸ ho)
      rw [(s2 (c6 fp ho) hnk).2]
      simp [hnk]
    · have hk' := hki.mpr hk
      rw [(s3 (hk ▸ c5) hk').1]
      simp [hk']
  rw [hfl]
  rfl

theorem makeMove_flag_bits {p : Position} {m : Move} {fp tp : Nat} {p' : Position} {b : Bool}
    (hi : Inv p) (hc : Common p m fp tp) (h : makeMove p m = .ok (p', b)) :
    (p'.flags &&& FWhiteTurn != 0) = !(p.flags &&& FWhiteTurn != 0) ∧
    (p'.flags &&& kFlagOf (whiteTurn p) != 0) = ((p.flags &&& kFlagOf (whiteTurn p) != 0) &&
      !decide (m.frm = (p.side (whiteTurn p)).king) &&
      !(fileOf m.frm == Gen.H && rankOf m.frm == homeRankOf (whiteTurn p))) ∧
    (p'.flags &&& qFlagOf (whiteTurn p) != 0) = ((p.flags &&& qFlagOf (whiteTurn p) != 0) &&
      !decide (m.frm = (p.side (whiteTurn p)).king) &&
      !(fileOf m.frm == Gen.A && rankOf m.frm == homeRankOf (whiteTurn p))) ∧
    (p'.flags &&& kFlagOf (!whiteTurn p) != 0) = ((p.flags &&& kFlagOf (!whiteTurn p) != 0) &&
      !(fileOf m.to == Gen.H && rankOf m.to == homeRankOf (!whiteTurn p))) ∧
    (p'.flags &&& qFlagOf (!whiteTurn p) != 0) = ((p.flags &&& qFlagOf (!whiteTurn p) != 0) &&
      !(fileOf m.to == Gen.A && rankOf m.to == homeRankOf (!whiteTurn p))) := by
  rw [makeMove_flags hi hc h]
  exact newFlags_bits _ hi.flags _ _ _ _ _ _

/-! ### `Spec.apply`, field by field -/

theorem apply_turn {P : Spec.Pos} {mv : Spec.Move} {man : Spec.Man} (h : P.at mv.frm = some man) :
    (Spec.apply P mv).turn = P.turn.other := by
  unfold Spec.apply
  simp only [h]

theorem apply_ep {P : Spec.Pos} {mv : Spec.Move} {man : Spec.Man} (h : P.at mv.frm = some man) :
    (Spec.apply P mv).ep = if man.kind == .pawn && Spec.adiff (Spec.rankOf mv.frm) (Spec.rankOf mv.to) == 2
      then some (Spec.mkSq (Spec.fileOf mv.frm) ((Spec.rankOf mv.frm + Spec.rankOf mv.to) / 2)) else none := by
  unfold Spec.apply
  simp only [h]

theorem apply_wk {P : Spec.Pos} {mv : Spec.Move} {man : Spec.Man} (h : P.at mv.frm = some man) :
    (Spec.apply P mv).wk = (P.wk && !(mv.frm == 4 || mv.to == 4) && !(mv.frm == 7 || mv.to == 7)) := by
  unfold Spec.apply
  simp only [h]

theorem apply_wq {P : Spec.Pos} {mv : Spec.Move} {man : Spec.Man} (h : P.at mv.frm = some man) :
    (Spec.apply P mv).wq = (P.wq && !(mv.frm == 4 || mv.to == 4) && !(mv.frm == 0 || mv.to == 0)) := by
  unfold Spec.apply
  simp only [h]

theorem apply_bk {P : Spec.Pos} {mv : Spec.Move} {man : Spec.Man} (h : P.at mv.frm = some man) :
    (Spec.apply P mv).bk = (P.bk && !(mv.frm == 60 || mv.to == 60) && !(mv.frm == 63 || mv.to == 63)) := by
  unfold Spec.apply
  simp only [h]

theorem apply_bq {P : Spec.Pos} {mv : Spec.Move} {man : Spec.Man} (h : P.at mv.frm = some man) :
    (Spec.apply P mv).bq = (P.bq && !(mv.frm == 60 || mv.to == 60) && !(mv.frm == 56 || mv.to == 56)) := by
  unfold Spec.apply
  simp only [h]

theorem apply_board {P : Spec.Pos} {mv : Spec.Move} {man : Spec.Man} (h : P.at mv.frm = some man) :
    (Spec.apply P mv).board =
      (let placed : Spec.Man := match mv.promo with | some k => ⟨P.turn, k⟩ | none => man
       let b1 := (P.board.setIfInBounds mv.frm none).setIfInBounds mv.to (some placed)
       let b2 := if Spec.isEnPassant P mv then
          b1.setIfInBounds (Spec.mkSq (Spec.fileOf mv.to) (Spec.rankOf mv.frm)) none else b1
       if Spec.isCastle P mv then
        if Spec.fileOf mv.to == 6 then
          (b2.setIfInBounds (Spec.mkSq 7 (Spec.rankOf mv.frm)) none).setIfInBounds
            (Spec.mkSq 5 (Spec.rankOf mv.frm)) (some ⟨P.turn, .rook⟩)
        else
          (b2.setIfInBounds (Spec.mkSq 0 (Spec.rankOf mv.frm)) none).setIfInBounds
            (Spec.mkSq 3 (Spec.rankOf mv.frm)) (some ⟨P.turn, .rook⟩)
       else b2) := by
  unfold Spec.apply
  simp only [h]
  rfl

/-! ### side to move -/

theorem abs_turn_flip {p : Position} {m : Move} {fp tp : Nat} {p' : Position} {b : Bool}
    (hi : Inv p) (hc : Common p m fp tp) (h : makeMove p m = .ok (p', b)) :
    (abs p').turn = (Spec.apply (abs p) (absMove m)).turn := by
  rw [apply_turn (mv := absMove m) hc.at_frm]
  have hb := (makeMove_flag_bits hi hc h).1
  show (if whiteTurn p' then Spec.Color.white else .black)
    = (if whiteTurn p then Spec.Color.white else .black).other
  unfold whiteTurn
  rw [hb]
  cases (p.flags &&& FWhiteTurn != 0) <;> rfl

/-! ### en-passant target -/

theorem ep_dbl_fin : ∀ f ∈ sq88, ∀ w : Bool, rankOf f = startRankOf w →
    isValid (addb f (advOf w)) = true ∧
    Spec.adiff (Spec.rankOf (to64 f)) (Spec.rankOf (to64 (addb (addb f (advOf w)) (advOf w)))) = 2 ∧
    to64 (addb f (advOf w)) = Spec.mkSq (Spec.fileOf (to64 f))
      ((Spec.rankOf (to64 f) + Spec.rankOf (to64 (addb (addb f (advOf w)) (advOf w)))) / 2) := by
  decide

theorem ep_push_fin : ∀ f ∈ sq88, ∀ w : Bool, addb f (advOf w) ∈ sq88 →
    Spec.adiff (Spec.rankOf (to64 f)) (Spec.rankOf (to64 (addb f (advOf w)))) ≠ 2 := by
  decide

theorem ep_cap_fin : ∀ f ∈ sq88, ∀ w : Bool, ∀ d ∈ [255, 1], addb (addb f (advOf w)) d ∈ sq88 →
    Spec.adiff (Spec.rankOf (to64 f)) (Spec.rankOf (to64 (addb (addb f (advOf w)) d))) ≠ 2 := by
  decide

theorem mem_255_1 {d : Nat} (h : d = 255 ∨ d = 1) : d ∈ [255, 1] := by
  rcases h with rfl | rfl <;> simp

theorem abs_ep_eq {p : Position} {m : Move} {fp tp : Nat} {p' : Position} {b : Bool}
    (hi : Inv p) (hg : GenCase p m) (hc : Common p m fp tp) (h : makeMove p m = .ok (p', b)) :
    (abs p').ep = (Spec.apply (abs p) (absMove m)).ep := by
  obtain ⟨_, _, _, _, _, _, _, _, _, _, _, hep'⟩ := makeMove_fields h
  rw [apply_ep (mv := absMove m) hc.at_frm]
  show (if isValid p'.ep then some (to64 p'.ep) else none) = _
  rw [hep']
  obtain ⟨_, hkp, hkk, _⟩ := hc.facts
  obtain ⟨_, c2, c3, c4, _⟩ := code_facts (whiteTurn p)
  have hinv : isValid InvalidSq = false := by decide
  have fp_of : ∀ v, p.board[m.frm]? = some v → fp = v := fun v hv => by
    have := hc.hfp; rw [hv] at this; cases this; rfl
  show _ = if (kindOf fp == Spec.Kind.pawn && Spec.adiff (Spec.rankOf (to64 m.frm)) (Spec.rankOf (to64 m.to)) == 2) = true
    then some (Spec.mkSq (Spec.fileOf (to64 m.frm)) ((Spec.rankOf (to64 m.frm) + Spec.rankOf (to64 m.to)) / 2)) else none
  -- a pawn move that is not a double push, or a move of another man
  have hnone : m.ep = InvalidSq →
      (kindOf fp == Spec.Kind.pawn && Spec.adiff (Spec.rankOf (to64 m.frm)) (Spec.rankOf (to64 m.to)) == 2) = false →
      (if isValid m.ep then some (to64 m.ep) else none) =
        if (kindOf fp == Spec.Kind.pawn && Spec.adiff (Spec.rankOf (to64 m.frm)) (Spec.rankOf (to64 m.to)) == 2) = true
        then some (Spec.mkSq (Spec.fileOf (to64 m.frm)) ((Spec.rankOf (to64 m.frm) + Spec.rankOf (to64 m.to)) / 2))
        else none := by
    intro h1 h2
    rw [h1, hinv, h2]
    rfl
  have hnp : fp ≠ pawnOf (whiteTurn p) → (kindOf fp == Spec.Kind.pawn &&
      Spec.adiff (Spec.rankOf (to64 m.frm)) (Spec.rankOf (to64 m.to)) == 2) = false := by
    intro hne
    rw [hkp]
    simp [hne]
  have hnd : Spec.adiff (Spec.rankOf (to64 m.frm)) (Spec.rankOf (to64 m.to)) ≠ 2 → (kindOf fp == Spec.Kind.pawn &&
      Spec.adiff (Spec.rankOf (to64 m.frm)) (Spec.rankOf (to64 m.to)) == 2) = false := by
    intro hne
    simp [hne]
  cases hg with
  | push hfrm hpawn hto hto88 hempty hep hpromo =>
    exact hnone hep (hnd (by rw [hto]; exact ep_push_fin _ hfrm _ (hto ▸ hto88)))
  | dbl hfrm hpawn hrank hto hto88 hempty hep hpromo =>
    obtain ⟨e1, e2, e3⟩ := ep_dbl_fin _ hfrm _ hrank
    have hk : (kindOf fp == Spec.Kind.pawn) = true := by rw [hkp, fp_of _ hpawn]; simp
    rw [hep, e1, hto, hk, e2, e3]
    rfl
  | capture hfrm hpawn d hd hto hto88 x hx hen hep hpromo =>
    exact hnone hep (hnd (by rw [hto]; exact ep_cap_fin _ hfrm _ d (mem_255_1 hd) (hto ▸ hto88)))
  | enpassant hfrm hpawn d hd hto hepsq hepok hep hpromo =>
    exact hnone hep (hnd (by rw [hto]; exact ep_cap_fin _ hfrm _ d (mem_255_1 hd) (hto ▸ hc.to88)))
  | officer hfrm c hcc hpc hto88 x hx hown hep hpromo =>
    exact hnone hep (hnp (fun hh => c3 (hh ▸ fp_of _ hpc ▸ hcc)))
  | king hk d hd hto hto88 x hx hown hep hpromo =>
    exact hnone hep (hnp (fun hh => c2 (hh.symm.trans ((hc.king_iff hi).mp hk))))
  | castleK hk hflag hhome hto hempty hep hpromo =>
    exact hnone hep (hnp (fun hh => c2 (hh.symm.trans ((hc.king_iff hi).mp hk))))
  | castleQ hk hflag hhome hto hempty hep hpromo =>
    exact hnone hep (hnp (fun hh => c2 (hh.symm.trans ((hc.king_iff hi).mp hk))))

/-! ### castling rights -/

/-- the specification's `touch`: the move starts or ends on square `s` (0..63) -/
def touch (m : Move) (s : Nat) : Bool := (to64 m.frm == s || to64 m.to == s)

set_option maxRecDepth 100000 in
theorem to64_beq : ∀ s ∈ sq88, ∀ t ∈ sq88, (to64 s == to64 t) = decide (s = t) := by decide +kernel

theorem corner_fin : ∀ s ∈ sq88, ∀ v : Bool,
    (fileOf s == Gen.H && rankOf s == homeRankOf v) = decide (s = rookK88 v) ∧
    (fileOf s == Gen.A && rankOf s == homeRankOf v) = decide (s = rookQ88 v) := by decide

theorem home_bits : ∀ w : Bool, kingOf w &&& bitOf w ≠ 0 ∧ rookOf w &&& bitOf w ≠ 0 ∧
    kingOf (!w) &&& bitOf w = 0 ∧ rookOf (!w) &&& bitOf w = 0 := by decide

section
variable {p : Position} {m : Move} {fp tp : Nat} {p' : Position} {b : Bool}

/-- a right of the side to move: cleared by the model iff the specification's `touch` clears it -/
theorem flag_cur (hi : Inv p) (hc : Common p m fp tp) {rk : Nat} (hrk88 : rk ∈ sq88)
    (hK : p.board[kingHome88 (whiteTurn p)]? = some (kingOf (whiteTurn p)))
    (hR : p.board[rk]? = some (rookOf (whiteTurn p))) (c : Bool) (hcorner : c = decide (m.frm = rk)) :
    (true && !decide (m.frm = (p.side (whiteTurn p)).king) && !c) =
      (true && !touch m (to64 (kingHome88 (whiteTurn p))) && !touch m (to64 rk)) := by
  have hkh := king_home hi _ hK
  obtain ⟨kb, rb, _⟩ := home_bits (whiteTurn p)
  obtain ⟨h88k, _⟩ := home_sq88 (whiteTurn p)
  have e1 := to64_beq _ hc.frm88 _ h88k
  have e2 : (to64 m.to == to64 (kingHome88 (whiteTurn p))) = false := by
    rw [to64_beq _ hc.to88 _ h88k]; simpa using hc.to_ne hK kb
  have e3 := to64_beq _ hc.frm88 _ hrk88
  have e4 : (to64 m.to == to64 rk) = false := by
    rw [to64_beq _ hc.to88 _ hrk88]; simpa using hc.to_ne hR rb
  simp only [touch, e1, e2, e3, e4, hcorner, hkh, Bool.or_false]

/-- a right of the side not to move -/
theorem flag_en (hi : Inv p) (hc : Common p m fp tp) (hk : m.to ≠ (p.side (!whiteTurn p)).king)
    {rk : Nat} (hrk88 : rk ∈ sq88)
    (hK : p.board[kingHome88 (!whiteTurn p)]? = some (kingOf (!whiteTurn p)))
    (hR : p.board[rk]? = some (rookOf (!whiteTurn p))) (c : Bool) (hcorner : c = decide (m.to = rk)) :
    (true && !c) =
      (true && !touch m (to64 (kingHome88 (!whiteTurn p))) && !touch m (to64 rk)) := by
  have hkh := king_home hi _ hK
  obtain ⟨_, _, kb, rb⟩ := home_bits (whiteTurn p)
  obtain ⟨h88k, _⟩ := home_sq88 (!whiteTurn p)
  have e1 : (to64 m.frm == to64 (kingHome88 (!whiteTurn p))) = false := by
    rw [to64_beq _ hc.frm88 _ h88k]; simpa using hc.frm_ne hK kb
  have e2 : (to64 m.to == to64 (kingHome88 (!whiteTurn p))) = false := by
    rw [to64_beq _ hc.to88 _ h88k]; simpa [hkh] using hk
  have e3 : (to64 m.frm == to64 rk) = false := by
    rw [to64_beq _ hc.frm88 _ hrk88]; simpa using hc.frm_ne hR rb
  have e4 := to64_beq _ hc.to88 _ hrk88
  simp only [touch, e1, e2, e3, e4, hcorner, Bool.or_false, Bool.false_or, Bool.not_false, Bool.and_true]

theorem flag_cur_K (hi : Inv p) (hc : Common p m fp tp) (h : makeMove p m = .ok (p', b)) :
    (p'.flags &&& kFlagOf (whiteTurn p) != 0) =
      ((p.flags &&& kFlagOf (whiteTurn p) != 0) && !touch m (to64 (kingHome88 (whiteTurn p))) &&
        !touch m (to64 (rookK88 (whiteTurn p)))) := by
  rw [(makeMove_flag_bits hi hc h).2.1]
  cases hfl : (p.flags &&& kFlagOf (whiteTurn p) != 0)
  · rfl
  · have hne : p.flags &&& kFlagOf (whiteTurn p) ≠ 0 := by simpa using hfl
    obtain ⟨hK, hR⟩ := castle_K hi _ hne
    exact flag_cur hi hc (home_sq88 _).2.1 hK hR _ (corner_fin _ hc.frm88 _).1

theorem flag_cur_Q (hi : Inv p) (hc : Common p m fp tp) (h : makeMove p m = .ok (p', b)) :
    (p'.flags &&& qFlagOf (whiteTurn p) != 0) =
      ((p.flags &&& qFlagOf (whiteTurn p) != 0) && !touch m (to64 (kingHome88 (whiteTurn p))) &&
        !touch m (to64 (rookQ88 (whiteTurn p)))) := by
  rw [(makeMove_flag_bits hi hc h).2.2.1]
  cases hfl : (p.flags &&& qFlagOf (whiteTurn p) != 0)
  · rfl
  · have hne : p.flags &&& qFlagOf (whiteTurn p) ≠ 0 := by simpa using hfl
    obtain ⟨hK, hR⟩ := castle_Q hi _ hne
    exact flag_cur hi hc (home_sq88 _).2.2.1 hK hR _ (corner_fin _ hc.frm88 _).2

theorem flag_en_K (hi : Inv p) (hc : Common p m fp tp) (h : makeMove p m = .ok (p', b))
    (hk : m.to ≠ (p.side (!whiteTurn p)).king) :
    (p'.flags &&& kFlagOf (!whiteTurn p) != 0) =
      ((p.flags &&& kFlagOf (!whiteTurn p) != 0) && !touch m (to64 (kingHome88 (!whiteTurn p))) &&
        !touch m (to64 (rookK88 (!whiteTurn p)))) := by
  rw [(makeMove_flag_bits hi hc h).2.2.2.1]
  cases hfl : (p.flags &&& kFlagOf (!whiteTurn p) != 0)
  · rfl
  · have hne : p.flags &&& kFlagOf (!whiteTurn p) ≠ 0 := by simpa using hfl
    obtain ⟨hK, hR⟩ := castle_K hi _ hne
    exact flag_en hi hc hk (home_sq88 _).2.1 hK hR _ (corner_fin _ hc.to88 _).1

theorem flag_en_Q (hi : Inv p) (hc : Common p m fp tp) (h : makeMove p m = .ok (p', b))
    (hk : m.to ≠ (p.side (!whiteTurn p)).king) :
    (p'.flags &&& qFlagOf (!whiteTurn p) != 0) =
      ((p.flags &&& qFlagOf (!whiteTurn p) != 0) && !touch m (to64 (kingHome88 (!whiteTurn p))) &&
        !touch m (to64 (rookQ88 (!whiteTurn p)))) := by
  rw [(makeMove_flag_bits hi hc h).2.2.2.2]
  cases hfl : (p.flags &&& qFlagOf (!whiteTurn p) != 0)
  · rfl
  · have hne : p.flags &&& qFlagOf (!whiteTurn p) ≠ 0 := by simpa using hfl
    obtain ⟨hK, hR⟩ := castle_Q hi _ hne
    exact flag_en hi hc hk (home_sq88 _).2.2.1 hK hR _ (corner_fin _ hc.to88 _).2

theorem abs_castling_eq (hi : Inv p) (hc : Common p m fp tp) (h : makeMove p m = .ok (p', b))
    (hk : m.to ≠ (p.side (!whiteTurn p)).king) :
    (abs p').wk = (Spec.apply (abs p) (absMove m)).wk ∧ (abs p').wq = (Spec.apply (abs p) (absMove m)).wq ∧
    (abs p').bk = (Spec.apply (abs p) (absMove m)).bk ∧ (abs p').bq = (Spec.apply (abs p) (absMove m)).bq := by
  rw [apply_wk (mv := absMove m) hc.at_frm, apply_wq (mv := absMove m) hc.at_frm,
    apply_bk (mv := absMove m) hc.at_frm, apply_bq (mv := absMove m) hc.at_frm]
  have h1 := flag_cur_K hi hc h
  have h2 := flag_cur_Q hi hc h
  have h3 := flag_en_K hi hc h hk
  have h4 := flag_en_Q hi hc h hk
  cases hw : whiteTurn p
  · rw [hw] at h1 h2 h3 h4
    exact ⟨h3, h4, h1, h2⟩
  · rw [hw] at h1 h2 h3 h4
    exact ⟨h1, h2, h3, h4⟩

end

end Magog.MMAbs
