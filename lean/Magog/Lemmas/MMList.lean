import Magog.Lemmas.Count

/-! Specifications of the piece-list operations of `makeMove` (`replaceFirst`, the swap-remove of
    `kill` / promotion, `appendCap`): membership, `Nodup`, length. -/

namespace Magog.MM
open Magog Magog.Model Magog.Count

/-! ### `replaceFirst` -/

theorem replaceFirst_cons (x : Nat) (xs : List Nat) (a b : Nat) :
    replaceFirst (x :: xs) a b = if x = a then b :: xs else x :: replaceFirst xs a b := by
  unfold replaceFirst
  rw [List.idxOf?_cons]
  by_cases h : x = a
  · simp [h]
  · have : (x == a) = false := by simpa using h
    simp only [this, Bool.false_eq_true, if_false, h]
    cases List.idxOf? a xs <;> simp

theorem replaceFirst_length (l : List Nat) (a b : Nat) : (replaceFirst l a b).length = l.length := by
  unfold replaceFirst
  split <;> simp

theorem replaceFirst_mem {l : List Nat} {a b : Nat} (ha : a ∈ l) (hnd : l.Nodup) (s : Nat) :
    s ∈ replaceFirst l a b ↔ (s ∈ l ∧ s ≠ a) ∨ s = b := by
  induction l with
  | nil => cases ha
  | cons x xs ih =>
    rw [replaceFirst_cons]
    have hnd' := List.nodup_cons.mp hnd
    by_cases h : x = a
    · subst h
      simp only [if_true, List.mem_cons]
      constructor
      · rintro (h | h)
        · exact .inr h
        · exact .inl ⟨.inr h, fun e => hnd'.1 (e ▸ h)⟩
      · rintro (⟨h | h, hne⟩ | h)
        · exact absurd h hne
        · exact .inr h
        · exact .inl h
    · simp only [h, if_false, List.mem_cons]
      have ha' : a ∈ xs := by
        rcases List.mem_cons.mp ha with e | e
        · exact absurd e.symm h
        · exact e
      rw [ih ha' hnd'.2]
      constructor
      · rintro (h1 | ⟨h1, h2⟩ | h1)
        · exact .inl ⟨.inl h1, h1 ▸ h⟩
        · exact .inl ⟨.inr h1, h2⟩
        · exact .inr h1
      · rintro (⟨h1 | h1, h2⟩ | h1)
        · exact .inl h1
        · exact .inr (.inl ⟨h1, h2⟩)
        · exact .inr (.inr h1)

theorem replaceFirst_nodup {l : List Nat} {a b : Nat} (ha : a ∈ l) (hnd : l.Nodup) (hb : b ∉ l) :
    (replaceFirst l a b).Nodup := by
  induction l with
  | nil => cases ha
  | cons x xs ih =>
    rw [replaceFirst_cons]
    have hnd' := List.nodup_cons.mp hnd
    by_cases h : x = a
    · simp only [h, if_true]
      exact List.nodup_cons.mpr ⟨fun e => hb (List.mem_cons_of_mem _ e), hnd'.2⟩
    · simp only [h, if_false]
      have ha' : a ∈ xs := by
        rcases List.mem_cons.mp ha with e | e
        · exact absurd e.symm h
        · exact e
      refine List.nodup_cons.mpr ⟨?_, ih ha' hnd'.2 (fun e => hb (List.mem_cons_of_mem _ e))⟩
      rw [replaceFirst_mem ha' hnd'.2]
      rintro (⟨h1, _⟩ | h1)
      · exact hnd'.1 h1
      · exact hb (h1 ▸ List.mem_cons_self)

/-! ### swap-remove -/

/-- the swap-remove of `killPiece` / `pawnList.remove` -/
def swapRemove (l : List Nat) (i : Nat) : List Nat := (l.set i (l.getLastD 0)).dropLast

theorem dropLast_cons_getLastD_perm (x : Nat) : ∀ xs : List Nat, ((xs.getLastD x) :: xs).dropLast.Perm xs := by
  intro xs
  induction xs generalizing x with
  | nil => simp
  | cons y ys ih =>
    rw [List.getLastD_cons, List.dropLast_cons_of_ne_nil (by simp)]
    by_cases hys : ys = []
    · subst hys; simp
    · -- (ys.getLastD y :: (y :: ys).dropLast)  ~  y :: ys
      rw [List.dropLast_cons_of_ne_nil hys]
      have h1 := ih y
      rw [List.dropLast_cons_of_ne_nil hys] at h1
      exact (List.Perm.swap _ _ _).trans (List.Perm.cons y h1)

theorem swapRemove_perm : ∀ (l : List Nat) (i : Nat), i < l.length → (swapRemove l i).Perm (l.eraseIdx i) := by
  intro l
  induction l with
  | nil => intro i hi; simp at hi
  | cons x xs ih =>
    intro i hi
    cases i with
    | zero =>
      unfold swapRemove
      simp only [List.set_cons_zero, List.eraseIdx_cons_zero, List.getLastD_cons]
      exact dropLast_cons_getLastD_perm x xs
    | succ j =>
      have hj : j < xs.length := by simpa using hi
      have hne : xs ≠ [] := by intro e; subst e; simp at hj
      unfold swapRemove
      rw [List.set_cons_succ, List.eraseIdx_cons_succ,
        List.dropLast_cons_of_ne_nil (by intro e; exact hne (by simpa using congrArg List.length e |> fun h => List.eq_nil_of_length_eq_zero (by simpa using h)))]
      have hlast : (x :: xs).getLastD 0 = xs.getLastD 0 := by
        cases xs with
        | nil => exact absurd rfl hne
        | cons y ys => simp
      rw [hlast]
      exact List.Perm.cons x (ih j hj)

theorem swapRemove_spec {l : List Nat} {a i : Nat} (hi : l.idxOf? a = some i) (hnd : l.Nodup) :
    (∀ s, s ∈ swapRemove l i ↔ s ∈ l ∧ s ≠ a) ∧ (swapRemove l i).Nodup ∧
      (swapRemove l i).length + 1 = l.length := by
  obtain ⟨hil, hli, _⟩ := List.idxOf?_eq_some_iff.mp hi
  have hp := swapRemove_perm l i hil
  have he : l.erase a = l.eraseIdx i := by
    rw [List.erase_eq_eraseIdx, hi]
  rw [← he] at hp
  have hmem : a ∈ l := hli ▸ List.getElem_mem hil
  refine ⟨fun s => ?_, hp.nodup_iff.mpr (hnd.erase a), ?_⟩
  · rw [hp.mem_iff, hnd.mem_erase_iff]
    exact ⟨fun h => ⟨h.2, h.1⟩, fun h => ⟨h.2, h.1⟩⟩
  · rw [hp.length_eq, List.length_erase_of_mem hmem]
    have : 0 < l.length := by omega
    omega

theorem idxOf?_of_mem {l : List Nat} {a : Nat} (h : a ∈ l) : ∃ i, l.idxOf? a = some i := by
  cases hh : l.idxOf? a with
  | none => exact absurd h (List.idxOf?_eq_none_iff.mp hh)
  | some i => exact ⟨i, rfl⟩

/-- `kill` on a duplicate-free list containing the square: succeeds, removes exactly that square -/
theorem kill_spec {l : List Nat} {a : Nat} (what : String) (h : a ∈ l) (hnd : l.Nodup) :
    ∃ l', kill l a what = .ok l' ∧ (∀ s, s ∈ l' ↔ s ∈ l ∧ s ≠ a) ∧ l'.Nodup ∧ l'.length + 1 = l.length := by
  obtain ⟨i, hi⟩ := idxOf?_of_mem h
  refine ⟨swapRemove l i, ?_, swapRemove_spec hi hnd⟩
  unfold kill
  rw [hi]
  rfl

end Magog.MM
