import Magog.Lemmas.Count

/-! C06, part 1: the tactical generator is the tactical-flagged sub-list of the full generator
    (`tactical_is_filter`). Also the decomposition of the pawn loops into their three parts, used by
    the counting lemmas. -/

namespace Magog.Count
open Magog Magog.Model

/-! ### the three parts of the per-pawn loop bodies -/

def pawnCapQ (p : Position) (c : Ctx) (frm : Nat) : M (List RMove) := do
  let toQ := addb (addb frm c.adv) 0xFF
  let hitQ ← andM (isValid toQ) (do let x ← bget p.board toQ; pure (x &&& c.enBit != 0))
  if hitQ then do
    let x ← bget p.board toQ
    pawnCaptures frm toQ c.promoRank (x &&& Colorless)
  else if toQ == p.ep then pawnCaptures frm toQ c.promoRank Pawn
  else pure []

def pawnCapK (p : Position) (c : Ctx) (frm : Nat) : M (List RMove) := do
  let toK := addb (addb frm c.adv) 1
  let x ← bget p.board toK
  if x &&& c.enBit != 0 then pawnCaptures frm toK c.promoRank (x &&& Colorless)
  else if toK == p.ep then pawnCaptures frm toK c.promoRank Pawn
  else pure []

def pawnPushGen (p : Position) (c : Ctx) (kt : Killers) (frm : Nat) : M (List RMove) := do
  let to1 := addb frm c.adv
  let y ← bget p.board to1
  if y == 0 then do
    let single ← pawnPushes kt p.ply frm to1 c.promoRank
    let to2 := addb to1 c.adv
    let dbl ← andM (rankOf frm == c.startRank) (do let z ← bget p.board to2; pure (z == 0))
    pure (if dbl then single ++ [⟨⟨frm, to2, 0, to1⟩, 0, false⟩] else single)
  else pure []

def pawnPushTac (p : Position) (c : Ctx) (frm : Nat) : M (List RMove) := do
  let to1 := addb frm c.adv
  let y ← bget p.board to1
  pure (if y == 0 && rankOf to1 == c.promoRank then
          promoRMoves frm to1 ((Gen.rankingBonusTactical : Int) - Gen.MaterialPawnScore)
        else [])

theorem pawnGen_eq (p c kt frm) : pawnGen p c kt frm = (do
    let a ← pawnCapQ p c frm
    let b ← pawnCapK p c frm
    let d ← pawnPushGen p c kt frm
    pure (a ++ b ++ d)) := by
  unfold pawnGen pawnCapQ pawnCapK pawnPushGen
  simp only [bind_assoc, pure_bind]
  repeat' first | rfl | split | (simp only [bind_assoc, pure_bind]) | (apply bind_congr; intro _)

theorem pawnGenTactical_eq (p c frm) : pawnGenTactical p c frm = (do
    let a ← pawnCapQ p c frm
    let b ← pawnCapK p c frm
    let d ← pawnPushTac p c frm
    pure (a ++ b ++ d)) := by
  unfold pawnGenTactical pawnCapQ pawnCapK pawnPushTac
  simp only [bind_assoc, pure_bind]
  repeat' first | rfl | split | (simp only [bind_assoc, pure_bind]) | (apply bind_congr; intro _)

/-! ### shapes of the generated moves -/

theorem quiet_shape {kt ply mov rm} (h : quiet kt ply mov = .ok rm) :
    rm.mov = mov ∧ rm.tactical = false := by
  simp only [quiet, bind_ok, pure_eq_ok, Except.ok.injEq] at h
  obtain ⟨r, _, rfl⟩ := h
  exact ⟨rfl, rfl⟩

theorem captureRM_shape {mov a b rm} (h : captureRM mov a b = .ok rm) :
    rm.mov = mov ∧ rm.tactical = true := by
  simp only [captureRM, bind_ok, pure_eq_ok, Except.ok.injEq] at h
  obtain ⟨_, _, _, _, rfl⟩ := h
  exact ⟨rfl, rfl⟩

theorem moveOrCapture_mov {kt ply frm to a x rm} (h : moveOrCapture kt ply frm to a x = .ok rm) :
    rm.mov = ⟨frm, to, 0, InvalidSq⟩ := by
  unfold moveOrCapture at h
  split at h
  · exact (quiet_shape h).1
  · exact (captureRM_shape h).1

theorem moveOrCapture_tactical {kt ply frm to a x rm} (h : moveOrCapture kt ply frm to a x = .ok rm) :
    rm.tactical = (x != 0) := by
  unfold moveOrCapture at h
  split at h
  · rename_i hx
    rw [(quiet_shape h).2]
    simp only [beq_iff_eq] at hx
    simp [hx]
  · rename_i hx
    rw [(captureRM_shape h).2]
    simp only [beq_iff_eq] at hx
    simp [hx]

theorem promoRMoves_tactical (frm to : Nat) (cm : Int) : ∀ rm ∈ promoRMoves frm to cm, rm.tactical = true := by
  intro rm h
  simp only [promoRMoves, List.mem_cons, List.not_mem_nil, or_false] at h
  rcases h with rfl | rfl | rfl | rfl <;> rfl

theorem promoRMoves_mov (frm to : Nat) (cm : Int) :
    (promoRMoves frm to cm).map (·.mov) =
      [⟨frm, to, Queen, InvalidSq⟩, ⟨frm, to, Rook, InvalidSq⟩, ⟨frm, to, Bishop, InvalidSq⟩,
       ⟨frm, to, Knight, InvalidSq⟩] := rfl

/-- what `appendPawnCaptures` emits, up to rankings -/
theorem pawnCaptures_shape {frm to pr cap a} (h : pawnCaptures frm to pr cap = .ok a) :
    (∀ rm ∈ a, rm.tactical = true) ∧
    a.map (·.mov) = (if rankOf to == pr then
        [⟨frm, to, Queen, InvalidSq⟩, ⟨frm, to, Rook, InvalidSq⟩, ⟨frm, to, Bishop, InvalidSq⟩,
         ⟨frm, to, Knight, InvalidSq⟩]
      else [⟨frm, to, 0, InvalidSq⟩]) := by
  simp only [pawnCaptures, bind_ok] at h
  obtain ⟨sc, _, h⟩ := h
  split at h
  · rename_i hr
    simp only [pure_eq_ok, Except.ok.injEq] at h
    subst h
    exact ⟨promoRMoves_tactical _ _ _, by simp only [hr, if_true]; rfl⟩
  · rename_i hr
    simp only [pure_eq_ok, Except.ok.injEq] at h
    subst h
    refine ⟨?_, by simp only [hr]; rfl⟩
    intro rm hrm
    simp only [List.mem_cons, List.not_mem_nil, or_false] at hrm
    subst hrm; rfl

/-! ### the relation "tactical list = tactical-flagged sub-list of the full list" -/

def TacRel (t f : List RMove) : Prop := t.map (·.mov) = (f.filter (·.tactical)).map (·.mov)

theorem TacRel.nil : TacRel [] [] := rfl

theorem TacRel.append {a b c d : List RMove} (h1 : TacRel a b) (h2 : TacRel c d) :
    TacRel (a ++ c) (b ++ d) := by
  unfold TacRel at *
  simp only [List.map_append, List.filter_append, h1, h2]

theorem TacRel.of_all {a : List RMove} (h : ∀ rm ∈ a, rm.tactical = true) : TacRel a a := by
  unfold TacRel
  rw [List.filter_eq_self.mpr h]

theorem TacRel.of_none {a : List RMove} (h : ∀ rm ∈ a, rm.tactical = false) : TacRel [] a := by
  unfold TacRel
  have : a.filter (·.tactical) = [] := by
    rw [List.filter_eq_nil_iff]
    intro rm hrm; simp [h rm hrm]
  rw [this]

theorem TacRel.single {a b : RMove} (hm : a.mov = b.mov) (hb : b.tactical = true) : TacRel [a] [b] := by
  simp [TacRel, hb, hm]

/-- cell well-formedness relative to the mover's context -/
def CellOkC (c : Ctx) (x : Nat) : Prop :=
  (x &&& c.enBit ≠ 0 → x &&& c.curBit = 0 ∧ x &&& Colorless ≠ 0) ∧
  (x &&& c.enBit = 0 → x &&& c.curBit = 0 → x &&& Colorless = 0)

theorem cellOkC_of_cellsOk {p : Position} (h : CellsOk p) {i x : Nat} (hx : bget p.board i = .ok x) :
    CellOkC p.ctx x := by
  have hmem : x ∈ p.board.toList := by
    rw [bget_ok_iff] at hx
    have := Array.mem_of_getElem? hx
    exact Array.mem_toList_iff.mpr this
  obtain ⟨h1, h2, h3⟩ := h x hmem
  unfold Position.ctx CellOkC
  split
  · exact ⟨h2, fun a b => h3 b a⟩
  · exact ⟨h1, fun a b => h3 a b⟩

/-! ### per-piece lemmas -/

theorem pawnCapQ_all_tactical {p c frm a} (h : pawnCapQ p c frm = .ok a) : ∀ rm ∈ a, rm.tactical = true := by
  simp only [pawnCapQ, bind_ok] at h
  obtain ⟨hit, _, h⟩ := h
  split at h
  · simp only [bind_ok] at h
    obtain ⟨x, _, h⟩ := h
    exact (pawnCaptures_shape h).1
  · split at h
    · exact (pawnCaptures_shape h).1
    · simp only [pure_eq_ok, Except.ok.injEq] at h
      subst h; intro rm hrm; cases hrm

theorem pawnCapK_all_tactical {p c frm a} (h : pawnCapK p c frm = .ok a) : ∀ rm ∈ a, rm.tactical = true := by
  simp only [pawnCapK, bind_ok] at h
  obtain ⟨x, _, h⟩ := h
  split at h
  · exact (pawnCaptures_shape h).1
  · split at h
    · exact (pawnCaptures_shape h).1
    · simp only [pure_eq_ok, Except.ok.injEq] at h
      subst h; intro rm hrm; cases hrm

theorem pawnPushes_shape {kt ply frm to pr a} (h : pawnPushes kt ply frm to pr = .ok a) :
    if rankOf to == pr then
      a = promoRMoves frm to ((Gen.rankingBonusTactical : Int) - Gen.MaterialPawnScore)
    else ∃ q, a = [q] ∧ q.mov = ⟨frm, to, 0, InvalidSq⟩ ∧ q.tactical = false := by
  unfold pawnPushes at h
  split
  · rename_i hr
    simp only [hr, if_true, pure_eq_ok, Except.ok.injEq] at h
    exact h.symm
  · rename_i hr
    rw [if_neg hr] at h
    simp only [bind_ok, pure_eq_ok, Except.ok.injEq] at h
    obtain ⟨q, hq, rfl⟩ := h
    exact ⟨q, rfl, quiet_shape hq⟩

theorem pawnPush_rel {p c kt frm t f} (ht : pawnPushTac p c frm = .ok t)
    (hf : pawnPushGen p c kt frm = .ok f) : TacRel t f := by
  simp only [pawnPushTac, pawnPushGen, bind_ok] at ht hf
  obtain ⟨y, hy, ht⟩ := ht
  obtain ⟨y', hy', hf⟩ := hf
  rw [hy] at hy'; cases hy'
  simp only [pure_eq_ok, Except.ok.injEq] at ht
  subst ht
  cases h0 : (y == 0)
  · simp only [h0, pure_eq_ok, Except.ok.injEq, Bool.false_and, Bool.false_eq_true, if_false] at hf ⊢
    subst hf
    exact TacRel.nil
  · simp only [h0, if_true, bind_ok, pure_eq_ok, Except.ok.injEq, Bool.true_and] at hf ⊢
    obtain ⟨single, hs, dbl, _, rfl⟩ := hf
    have hsh := pawnPushes_shape hs
    have hsingle : TacRel (if (rankOf (addb frm c.adv) == c.promoRank) = true then
        promoRMoves frm (addb frm c.adv) ((Gen.rankingBonusTactical : Int) - Gen.MaterialPawnScore)
        else []) single := by
      cases hr : (rankOf (addb frm c.adv) == c.promoRank)
      · simp only [hr, Bool.false_eq_true, if_false] at hsh ⊢
        obtain ⟨q, rfl, _, hq⟩ := hsh
        exact TacRel.of_none (by simp [hq])
      · simp only [hr, if_true] at hsh ⊢
        rw [hsh]; exact TacRel.of_all (promoRMoves_tactical _ _ _)
    cases dbl
    · simpa using hsingle
    · have := TacRel.append hsingle (TacRel.of_none (a :=
        [(⟨⟨frm, addb (addb frm c.adv) c.adv, 0, addb frm c.adv⟩, 0, false⟩ : RMove)]) (by simp))
      simpa using this

theorem pawn_rel {p c kt frm t f} (ht : pawnGenTactical p c frm = .ok t)
    (hf : pawnGen p c kt frm = .ok f) : TacRel t f := by
  rw [pawnGenTactical_eq] at ht
  rw [pawnGen_eq] at hf
  simp only [bind_ok, pure_eq_ok, Except.ok.injEq] at ht hf
  obtain ⟨a, ha, b, hb, d, hd, rfl⟩ := ht
  obtain ⟨a', ha', b', hb', d', hd', rfl⟩ := hf
  rw [ha] at ha'; cases ha'
  rw [hb] at hb'; cases hb'
  exact TacRel.append (TacRel.append (TacRel.of_all (pawnCapQ_all_tactical ha))
    (TacRel.of_all (pawnCapK_all_tactical hb))) (pawnPush_rel hd hd')

theorem bne_zero_true {x : Nat} : ((x != 0) = true) ↔ x ≠ 0 := by simp
theorem beq_zero_true {x : Nat} : ((x == 0) = true) ↔ x = 0 := by simp

theorem knight_rel {p : Position} {c kt frm t f} (hcell : ∀ i x, bget p.board i = .ok x → CellOkC c x)
    (ht : knightGenTactical p c frm = .ok t) (hf : knightGen p c kt frm = .ok f) : TacRel t f := by
  unfold knightGenTactical at ht
  unfold knightGen at hf
  refine flatMap_flatMap_rel TacRel TacRel.nil (fun _ _ _ _ => TacRel.append) ht hf ?_
  intro d _ a b ha hb
  dsimp only at ha hb
  cases hv : isValid (addb frm d)
  · simp only [hv, andM_false, ok_bind, Bool.false_eq_true, if_false, pure_eq_ok, Except.ok.injEq] at ha hb
    subst ha; subst hb; exact TacRel.nil
  · cases hx : bget p.board (addb frm d) with
    | error e => simp [hv, hx] at ha
    | ok x =>
      obtain ⟨hc1, hc2⟩ := hcell _ _ hx
      simp only [hv, hx, andM_true, ok_bind, pure_eq_ok] at ha hb
      cases he : (x &&& c.enBit != 0)
      · simp only [he, Bool.false_eq_true, if_false, Except.ok.injEq] at ha
        subst ha
        cases hcb : (x &&& c.curBit == 0)
        · simp only [hcb, Bool.false_eq_true, if_false, Except.ok.injEq] at hb
          subst hb; exact TacRel.nil
        · simp only [hcb, if_true, bind_ok, Except.ok.injEq] at hb
          obtain ⟨pc, _, mv, hmv, rfl⟩ := hb
          have hx0 : x &&& Colorless = 0 := hc2 (by simpa using he) (by simpa using hcb)
          refine TacRel.of_none ?_
          intro rm hrm
          simp only [List.mem_cons, List.not_mem_nil, or_false] at hrm
          subst hrm
          rw [moveOrCapture_tactical hmv, hx0]; rfl
      · obtain ⟨h1, h2⟩ := hc1 (by simpa using he)
        have hcb : (x &&& c.curBit == 0) = true := by simp [h1]
        simp only [he, hcb, if_true, bind_ok, Except.ok.injEq] at ha hb
        obtain ⟨mv', hmv', rfl⟩ := ha
        obtain ⟨pc, _, mv, hmv, rfl⟩ := hb
        refine TacRel.single ?_ ?_
        · rw [(captureRM_shape hmv').1, moveOrCapture_mov hmv]
        · rw [moveOrCapture_tactical hmv]; simpa using h2

theorem slideDir_rel {board : Array Nat} {c : Ctx} {kt : Killers} {ply : Int} {frm att dir : Nat}
    (hcell : ∀ i x, bget board i = .ok x → CellOkC c x) :
    ∀ (fuel to : Nat) (t f : List RMove), slideDirTactical board c frm dir fuel to = .ok t →
      slideDir board c kt ply frm att dir fuel to = .ok f → TacRel t f := by
  intro fuel
  induction fuel with
  | zero => intro to t f ht; simp [slideDirTactical, throw_eq_error] at ht
  | succ fuel ih =>
    intro to t f ht hf
    unfold slideDirTactical at ht
    unfold slideDir at hf
    cases hv : isValid to
    · simp only [hv, Bool.not_false, if_true, pure_eq_ok, Except.ok.injEq] at ht hf
      subst ht; subst hf; exact TacRel.nil
    · cases hx : bget board to with
      | error e => simp [hv, hx] at ht
      | ok x =>
        obtain ⟨hc1, hc2⟩ := hcell _ _ hx
        simp only [hv, hx, Bool.not_true, Bool.false_eq_true, if_false, ok_bind, pure_eq_ok] at ht hf
        cases hcb : (x &&& c.curBit != 0)
        · simp only [hcb, Bool.false_eq_true, if_false] at ht hf
          have hcb0 : x &&& c.curBit = 0 := by simpa using hcb
          cases he : (x &&& c.enBit != 0)
          · simp only [he, Bool.false_eq_true, if_false, bind_ok, Except.ok.injEq] at ht hf
            obtain ⟨mv, hmv, rest, hrest, rfl⟩ := hf
            have hx0 : x &&& Colorless = 0 := hc2 (by simpa using he) hcb0
            have h1 : TacRel [] [mv] := by
              refine TacRel.of_none ?_
              intro rm hrm
              simp only [List.mem_cons, List.not_mem_nil, or_false] at hrm
              subst hrm
              rw [moveOrCapture_tactical hmv, hx0]; rfl
            have := TacRel.append h1 (ih _ _ _ ht hrest)
            simpa using this
          · obtain ⟨_, h2⟩ := hc1 (by simpa using he)
            simp only [he, if_true, bind_ok, Except.ok.injEq] at ht hf
            obtain ⟨pc, _, mv', hmv', rfl⟩ := ht
            obtain ⟨mv, hmv, rfl⟩ := hf
            refine TacRel.single ?_ ?_
            · rw [(captureRM_shape hmv').1, moveOrCapture_mov hmv]
            · rw [moveOrCapture_tactical hmv]; simpa using h2
        · simp only [hcb, if_true, Except.ok.injEq] at ht hf
          subst ht; subst hf; exact TacRel.nil

theorem slide_rel {p : Position} {c kt frm dirs t f} (hcell : ∀ i x, bget p.board i = .ok x → CellOkC c x)
    (ht : flatMapM' (fun d => slideDirTactical p.board c frm d 8 (addb frm d)) dirs = .ok t)
    (hf : slideGen p c kt frm dirs = .ok f) : TacRel t f := by
  simp only [slideGen, bind_ok] at hf
  obtain ⟨a, _, hf⟩ := hf
  refine flatMap_flatMap_rel TacRel TacRel.nil (fun _ _ _ _ => TacRel.append) ht hf ?_
  intro d _ a b ha hb
  exact slideDir_rel hcell _ _ _ _ ha hb

theorem piece_rel {p : Position} {c kt frm t f} (hcell : ∀ i x, bget p.board i = .ok x → CellOkC c x)
    (ht : pieceGenTactical p c frm = .ok t) (hf : pieceGen p c kt frm = .ok f) : TacRel t f := by
  simp only [pieceGenTactical, pieceGen, bind_ok] at ht hf
  obtain ⟨pc, hpc, ht⟩ := ht
  obtain ⟨pc', hpc', hf⟩ := hf
  rw [hpc] at hpc'; cases hpc'
  split at ht
  · rename_i h; rw [if_pos h] at hf; exact knight_rel hcell ht hf
  · rename_i h; rw [if_neg h] at hf
    split at ht
    · rename_i h; rw [if_pos h] at hf; exact slide_rel hcell ht hf
    · rename_i h; rw [if_neg h] at hf
      split at ht
      · rename_i h; rw [if_pos h] at hf; exact slide_rel hcell ht hf
      · rename_i h; rw [if_neg h] at hf
        split at ht
        · rename_i h; rw [if_pos h] at hf; exact slide_rel hcell ht hf
        · simp [throw_eq_error] at ht

theorem king_rel {p : Position} {c kt t f} (hcell : ∀ i x, bget p.board i = .ok x → CellOkC c x)
    (ht : kingGenTactical p c = .ok t) (hf : kingGen p c kt = .ok f) : TacRel t f := by
  unfold kingGenTactical at ht
  unfold kingGen at hf
  refine flatMap_flatMap_rel TacRel TacRel.nil (fun _ _ _ _ => TacRel.append) ht hf ?_
  intro d _ a b ha hb
  dsimp only at ha hb
  cases hv : isValid (addb c.cur.king d)
  · simp only [hv, andM_false, ok_bind, Bool.false_eq_true, if_false, pure_eq_ok, Except.ok.injEq] at ha hb
    subst ha; subst hb; exact TacRel.nil
  · cases hx : bget p.board (addb c.cur.king d) with
    | error e => simp [hv, hx] at ha
    | ok x =>
      obtain ⟨hc1, hc2⟩ := hcell _ _ hx
      simp only [hv, hx, andM_true, ok_bind, pure_eq_ok] at ha hb
      cases he : (x &&& c.enBit != 0)
      · simp only [he, andM_false, ok_bind, Bool.false_eq_true, if_false, Except.ok.injEq] at ha
        subst ha
        cases hcb : (x &&& c.curBit == 0)
        · simp only [hcb, andM_false, ok_bind, Bool.false_eq_true, if_false, Except.ok.injEq] at hb
          subst hb; exact TacRel.nil
        · simp only [hcb, andM_true, bind_ok] at hb
          obtain ⟨ok, _, hb⟩ := hb
          cases ok
          · simp only [Bool.false_eq_true, if_false, Except.ok.injEq] at hb
            subst hb; exact TacRel.nil
          · simp only [if_true, bind_ok, Except.ok.injEq] at hb
            obtain ⟨pc, _, mv, hmv, rfl⟩ := hb
            have hx0 : x &&& Colorless = 0 := hc2 (by simpa using he) (by simpa using hcb)
            refine TacRel.of_none ?_
            intro rm hrm
            simp only [List.mem_cons, List.not_mem_nil, or_false] at hrm
            subst hrm
            rw [moveOrCapture_tactical hmv, hx0]; rfl
      · obtain ⟨h1, h2⟩ := hc1 (by simpa using he)
        have hcb : (x &&& c.curBit == 0) = true := by simp [h1]
        cases hu : isUnderCheck p.board c.en (addb c.cur.king d) with
        | error e => simp [he, hu] at ha
        | ok chk =>
          simp only [he, hcb, hu, andM_true, ok_bind] at ha hb
          cases chk
          · simp only [Bool.not_false, if_true, bind_ok, Except.ok.injEq] at ha hb
            obtain ⟨mv', hmv', rfl⟩ := ha
            obtain ⟨pc, _, mv, hmv, rfl⟩ := hb
            refine TacRel.single ?_ ?_
            · rw [(captureRM_shape hmv').1, moveOrCapture_mov hmv]
            · rw [moveOrCapture_tactical hmv]; simpa using h2
          · simp only [Bool.not_true, Bool.false_eq_true, if_false, Except.ok.injEq] at ha hb
            subst ha; subst hb; exact TacRel.nil

def castleQPart (p : Position) (c : Ctx) (kt : Killers) : M (List RMove) :=
  if c.qOk then do
    let ok ← castleQOk p c
    if ok then do
      let mv ← quiet kt p.ply ⟨c.cur.king, toByte (add8 (int8 c.cur.king) (-2)), 0, InvalidSq⟩
      pure [mv]
    else pure []
  else pure []

def castleKPart (p : Position) (c : Ctx) (kt : Killers) : M (List RMove) :=
  if c.kOk then do
    let ok ← castleKOk p c
    if ok then do
      let mv ← quiet kt p.ply ⟨c.cur.king, toByte (add8 (int8 c.cur.king) 2), 0, InvalidSq⟩
      pure [mv]
    else pure []
  else pure []

theorem castleGen_eq (p c kt) : castleGen p c kt = (do
    let q ← castleQPart p c kt
    let k ← castleKPart p c kt
    pure (q ++ k)) := by
  unfold castleGen castleQPart castleKPart
  repeat' first | rfl | split | (simp only [bind_assoc, pure_bind]) | (apply bind_congr; intro _)

theorem castleQPart_shape {p c kt q} (h : castleQPart p c kt = .ok q) :
    (q = [] ∧ (c.qOk = false ∨ castleQOk p c = .ok false)) ∨
    (∃ mv, q = [mv] ∧ mv.mov = ⟨c.cur.king, castleQTo c, 0, InvalidSq⟩ ∧ mv.tactical = false ∧
      c.qOk = true ∧ castleQOk p c = .ok true) := by
  unfold castleQPart at h
  cases hq : c.qOk
  · simp only [hq, Bool.false_eq_true, if_false, pure_eq_ok, Except.ok.injEq] at h
    exact .inl ⟨h.symm, .inl rfl⟩
  · simp only [hq, if_true, bind_ok] at h
    obtain ⟨ok, hok, h⟩ := h
    cases ok
    · simp only [Bool.false_eq_true, if_false, pure_eq_ok, Except.ok.injEq] at h
      exact .inl ⟨h.symm, .inr hok⟩
    · simp only [if_true, bind_ok, pure_eq_ok, Except.ok.injEq] at h
      obtain ⟨mv, hmv, rfl⟩ := h
      exact .inr ⟨mv, rfl, (quiet_shape hmv).1, (quiet_shape hmv).2, rfl, hok⟩

theorem castleKPart_shape {p c kt q} (h : castleKPart p c kt = .ok q) :
    (q = [] ∧ (c.kOk = false ∨ castleKOk p c = .ok false)) ∨
    (∃ mv, q = [mv] ∧ mv.mov = ⟨c.cur.king, castleKTo c, 0, InvalidSq⟩ ∧ mv.tactical = false ∧
      c.kOk = true ∧ castleKOk p c = .ok true) := by
  unfold castleKPart at h
  cases hq : c.kOk
  · simp only [hq, Bool.false_eq_true, if_false, pure_eq_ok, Except.ok.injEq] at h
    exact .inl ⟨h.symm, .inl rfl⟩
  · simp only [hq, if_true, bind_ok] at h
    obtain ⟨ok, hok, h⟩ := h
    cases ok
    · simp only [Bool.false_eq_true, if_false, pure_eq_ok, Except.ok.injEq] at h
      exact .inl ⟨h.symm, .inr hok⟩
    · simp only [if_true, bind_ok, pure_eq_ok, Except.ok.injEq] at h
      obtain ⟨mv, hmv, rfl⟩ := h
      exact .inr ⟨mv, rfl, (quiet_shape hmv).1, (quiet_shape hmv).2, rfl, hok⟩

theorem quiet_castle (p : Position) (c : Ctx) (kt : Killers) {cs} (h : castleGen p c kt = .ok cs) :
    ∀ rm ∈ cs, rm.tactical = false := by
  rw [castleGen_eq] at h
  simp only [bind_ok, pure_eq_ok, Except.ok.injEq] at h
  obtain ⟨q, hq, k, hk, rfl⟩ := h
  intro rm hrm
  rcases List.mem_append.mp hrm with h | h
  · rcases castleQPart_shape hq with ⟨rfl, _⟩ | ⟨mv, rfl, _, ht, _⟩
    · cases h
    · simp only [List.mem_cons, List.not_mem_nil, or_false] at h
      subst h; exact ht
  · rcases castleKPart_shape hk with ⟨rfl, _⟩ | ⟨mv, rfl, _, ht, _⟩
    · cases h
    · simp only [List.mem_cons, List.not_mem_nil, or_false] at h
      subst h; exact ht

theorem genPseudo_rel {p : Position} {kt ts fs} (hcells : CellsOk p)
    (ht : genPseudoTactical p = .ok ts) (hf : genPseudo kt p = .ok fs) : TacRel ts fs := by
  have hcell : ∀ i x, bget p.board i = .ok x → CellOkC p.ctx x := fun i x h => cellOkC_of_cellsOk hcells h
  simp only [genPseudoTactical, genPseudo, bind_ok, pure_eq_ok, Except.ok.injEq] at ht hf
  obtain ⟨a, ha, b, hb, k, hk, rfl⟩ := ht
  obtain ⟨a', ha', b', hb', k', hk', cs, hcs, rfl⟩ := hf
  have h1 : TacRel a a' := flatMap_flatMap_rel TacRel TacRel.nil (fun _ _ _ _ => TacRel.append) ha ha'
    (fun x _ u v hu hv => pawn_rel hu hv)
  have h2 : TacRel b b' := flatMap_flatMap_rel TacRel TacRel.nil (fun _ _ _ _ => TacRel.append) hb hb'
    (fun x _ u v hu hv => piece_rel hcell hu hv)
  have h3 : TacRel k k' := king_rel hcell hk hk'
  have h4 : TacRel [] cs := TacRel.of_none (quiet_castle p _ kt hcs)
  have := TacRel.append (TacRel.append (TacRel.append h1 h2) h3) h4
  simpa using this

/-- item 1 at the level of the helper file -/
theorem generate_tactical_rel {p : Position} {kt ts ms} (hcells : CellsOk p)
    (hf : generateMoves kt p = .ok ms) (ht : generateTacticalMoves p = .ok ts) : TacRel ts ms := by
  simp only [generateMoves, generateTacticalMoves, bind_ok] at hf ht
  obtain ⟨fs, hfs, hf⟩ := hf
  obtain ⟨tps, htps, ht⟩ := ht
  obtain ⟨_, rfl⟩ := legalFilter_ok hf
  obtain ⟨_, rfl⟩ := legalFilter_ok ht
  have h := genPseudo_rel hcells htps hfs
  unfold TacRel at h ⊢
  rw [List.filter_filter]
  have e1 : (tps.filter (fun rm => legalB p rm.mov)).map (·.mov) = (tps.map (·.mov)).filter (legalB p) := by
    rw [List.filter_map]; rfl
  have e2 : (fs.filter (fun a => (a.tactical && legalB p a.mov))).map (·.mov)
      = ((fs.filter (·.tactical)).map (·.mov)).filter (legalB p) := by
    rw [List.filter_map, List.filter_filter]
    congr 1
    apply List.filter_congr
    intro x _
    simp [Bool.and_comm]
  rw [e1, e2, h]

end Magog.Count
