import Magog.Lemmas.Total
import Magog.Lemmas.PvLegal
import Magog.Lemmas.PvWitness
import Magog.Lemmas.MateValue
import Magog.Lemmas.MateWitness
import Magog.Lemmas.LegalLinkProof
import Magog.Lemmas.LegalCount
import Magog.Props.C01
import Magog.Props.C06Spec

/-! Helper lemmas for the capstone theorems (`Props/Capstone.lean`): the hypotheses that the search theorems
    C03/C04/C05/C10/C14 carry about a set `G` of positions (`Closed`, `GenClosed`, `EvalFinite`, `EvalRange`,
    `EvalBoundOn`, `GenLink`, "the check test does not panic") are discharged once and for all on

        Total.G p := Inv p ∧ OppSafe p      (well-formed, the side not to move is not in check)

    and the model-level notions "generated move", "legal line", "forced mate on the model tree" are identified with
    the notions of the rules of chess (`Spec.legal`, `Spec.play`, `Spec.winsIn`, `Spec.losesIn`). -/

namespace Magog.Capstone
open Magog Magog.Model Magog.MM Magog.Total
open Magog.Lemmas.AlphaBeta Magog.Lemmas.EvalBound Magog.Lemmas.MateValue Magog.Spec.MateM

/-! ### the three notions of "generated move" -/

/-- a move listed by the full legal generator (any killer table) is a pseudo-legal generated move -/
theorem mmGenerated_of_genFull {p : Position} {m : Move} (hg : G p) (h : GenFull p m) : MM.Generated p m := by
  obtain ⟨kt, ms, hms, hm⟩ := h
  obtain ⟨ps, hps, hfil⟩ := LegalMoves.generateMoves_inv hg.1 hg.2 hms
  obtain ⟨rm, hrm, rfl⟩ := List.mem_map.1 hm
  rw [hfil] at hrm
  exact LegalMoves.generated_of_mem hps (List.mem_filter.1 hrm).1

/-- a move listed by the tactical generator is a pseudo-legal generated move -/
theorem mmGenerated_of_genTac {p : Position} {m : Move} (hg : G p) (h : GenTac p m) : MM.Generated p m := by
  obtain ⟨ts, hts, hm⟩ := h
  obtain ⟨rm, hrm, rfl⟩ := List.mem_map.1 hm
  exact (TotalMeasure.tactical_sub hg.1 hts hrm).2

theorem mmGenerated_of_gen {p : Position} {m : Move} (hg : G p) (h : GenFull p m ∨ GenTac p m) :
    MM.Generated p m :=
  h.elim (mmGenerated_of_genFull hg) (mmGenerated_of_genTac hg)

/-- every move of either legal generator is accepted by `makeMove` -/
theorem accepted_of_gen {p : Position} {m : Move} (hg : G p) (h : GenFull p m ∨ GenTac p m) :
    ∃ q, makeMove p m = .ok (q, true) := by
  rcases h with ⟨kt, ms, hms, hm⟩ | ⟨ts, hts, hm⟩
  · obtain ⟨rm, hrm, rfl⟩ := List.mem_map.1 hm
    exact makeMove_of_generated hms hrm
  · obtain ⟨rm, hrm, rfl⟩ := List.mem_map.1 hm
    obtain ⟨ts', hts', hall⟩ := Total.generateTacticalMoves_total hg
    rw [hts] at hts'
    cases hts'
    exact (hall rm hrm).2

/-! ### closure -/

/-- the closure notion of C10 / C14 -/
theorem G_closed : GenClosed (fun _ p => G p) :=
  fun _ _ _ _ hg hgen hmk => Total.G_child hg (mmGenerated_of_gen hg hgen) hmk

/-- the closure notion of C04 / C05 (the verdict of `makeMove` on a listed move is always `true`) -/
theorem closed_G : Closed G := by
  intro p m q b hg hgen hmk
  have hgen' : GenFull p m ∨ GenTac p m := hgen
  obtain ⟨q', hq'⟩ := accepted_of_gen hg hgen'
  rw [hmk] at hq'
  simp only [Except.ok.injEq, Prod.mk.injEq] at hq'
  obtain ⟨rfl, rfl⟩ := hq'
  exact Total.G_child hg (mmGenerated_of_gen hg hgen') hmk

/-! ### evaluation -/

theorem evalBoundOn_G {blend : Blend} (hb : BlendBounded blend pstMaxAbs) : EvalBoundOn blend G :=
  evalBoundOn_of_inv (fun _ h => h.1) hb

theorem evalRange_G {blend : Blend} (hb : BlendBounded blend pstMaxAbs) : EvalRange blend G 10000 :=
  evalRange_of_inv (fun _ h => h.1) hb 10000 depth_10000_ok

/-- all static and terminal scores on good positions are finite, for every table of at most 10 000 rows
    (the engine's has `Gen.pvRows = 88`) -/
theorem evalFinite_of_blendBounded {env : Env} (hb : BlendBounded env.blend pstMaxAbs) {D : Nat}
    (hD : D ≤ 10000) : EvalFinite env (fun _ p => G p) D := by
  intro d p hd hg a b x hx
  have hlt := evalB_lt
  have hB := eval_bound hg.1 hb
  have key : x = Gen.LostScore + (d : Int) ∨ x.natAbs ≤ evalB ∨ x = (Gen.DrawScore : Int) := by
    rcases hx with h | h | h
    · exact (hB.2.1 d a b x h).elim .inl (fun h => .inr (.inl h))
    · exact (hB.2.2 d x h).elim .inl (fun h => .inr (.inl h))
    · rw [LegalCount.terminalNodeScore_spec hg.1] at h
      have := Except.ok.inj h
      split at this
      · exact .inl this.symm
      · exact .inr (.inr this.symm)
  simp only [Gen.LostScore, Gen.ScoreCloseToMate, Gen.MinusInfinityScore, Gen.InfinityScore, Gen.DrawScore] at *
  omega

/-! ### the generator link and the check test -/

theorem genLink_G : GenLink G :=
  genLink_of_countOk
    (fun _ hg => (Total.generateMoves_total hg Props.C18.killers_empty_size).imp fun _ h => h.1)
    (fun _ hg => (Props.C06Spec.countOk_of_inv hg.1 hg.2).1)
    (fun _ hg => (Props.C06Spec.countOk_of_inv hg.1 hg.2).2.1)

theorem chk_G : ∀ p, G p → ∃ c, isCurrentKingUnderCheck p = .ok c :=
  fun _ hg => ⟨_, LegalCount.inCheck_spec hg.1⟩

theorem lazyOn_of_not_lazy {env : Env} (h : env.lazy = false) (G' : Position → Prop) : LazyOn env G' :=
  fun h' => by rw [h] at h'; cases h'

/-! ### generated moves are legal moves of the rules; legal lines are games of the rules -/

/-- a move of either legal generator that `makeMove` accepts is a legal move of the rules, and the successor
    position denotes the position the rules define -/
theorem legal_of_gen {p q : Position} {m : Move} (hg : G p) (h : GenFull p m ∨ GenTac p m)
    (hmk : makeMove p m = .ok (q, true)) :
    Spec.legal (abs p) (absMove m) = true ∧ abs q = Spec.apply (abs p) (absMove m) ∧ G q := by
  have hG := mmGenerated_of_gen hg h
  have hv := Replay.verdict_spec hg.1 hg.2 hG hmk
  have hps := Spec.pseudo_of_pseudo' (LegalMoves.generated_pseudo hg.1 hG)
  refine ⟨?_, LegalMoves.makeMove_abs' hg.1 hg.2 hG hmk, Total.G_child hg hG hmk⟩
  unfold Spec.legal
  rw [hps, ← hv]
  rfl

/-- the move generator's moves are exactly the legal moves: a move of the full generator denotes a legal move -/
theorem legal_of_genFull {p : Position} {m : Move} (hg : G p) (h : GenFull p m) :
    Spec.legal (abs p) (absMove m) = true := by
  obtain ⟨q, hq⟩ := accepted_of_gen hg (.inl h)
  exact (legal_of_gen hg (.inl h) hq).1

/-- **a legal line of the model is a game of the rules**, and ends in a good position denoting the rules' final
    position -/
theorem play_of_legalLine : ∀ (pv : List Move) {p : Position}, G p → LegalLine p pv →
    ∃ q, G q ∧ Spec.play (abs p) (pv.map absMove) = some (abs q)
  | [], p, hg, _ => ⟨p, hg, rfl⟩
  | m :: rest, p, hg, h => by
    obtain ⟨q, hgen, hmk, hrest⟩ := h
    obtain ⟨hleg, habs, hq⟩ := legal_of_gen hg hgen hmk
    obtain ⟨q', hq', hplay⟩ := play_of_legalLine rest hq hrest
    refine ⟨q', hq', ?_⟩
    rw [List.map_cons, Spec.play, if_pos hleg, ← habs]
    exact hplay

/-! ### a root with a legal move never answers `bestmove 0000` -/

local notation "INF" => (Gen.InfinityScore : Int)

/-- after the first root move has been searched (which happens whenever the loop starts uninterrupted with
    `α = −∞`: the value of a child is finite, so it improves on `−∞`), row 0 holds a non-empty line, and it stays
    non-empty -/
theorem rootLoop_nonempty {env : Env} {G' : Nat → Position → Prop} {D : Nat} (hcl : GenClosed G') {child : NodeFn}
    (hc : NodeOk G' D child) (p : Position) (target : Nat) (hp : G' 0 p) :
    ∀ (ms : List RMove) (α : Int) (curLen subLen : Nat) (s : SS) (r : LoopOut),
      rootLoop env child p target ms α curLen subLen s = .ok r →
      (∀ mv ∈ ms, GenFull p mv.mov) → s.rows.size ≤ D → LenOk s 1 subLen → α < INF →
      (rowPrefix s 0 curLen ≠ [] ∨ (ms ≠ [] ∧ s.interrupted = false ∧ α = -INF)) →
      rowPrefix r.st 0 r.curLen ≠ [] := by
  intro ms
  induction ms with
  | nil =>
    intro α curLen subLen s r h _ _ _ _ hline
    simp only [rootLoop, Model.pure_ok] at h; subst h
    exact hline.elim id (fun h => absurd rfl h.1)
  | cons mv rest ih =>
    intro α curLen subLen s r h hgen hD hsub hα hline
    rw [rootLoop_cons_eq] at h
    split at h
    · rename_i hi
      simp only [Model.pure_ok] at h; subst h
      exact hline.elim id (fun h => by rw [h.2.1] at hi; cases hi)
    rename_i hi
    have hint : s.interrupted = false := by simpa using hi
    split at h
    · exact absurd h (by simp [Model.throw_ok])
    obtain ⟨⟨q, b⟩, hmk, h⟩ := Model.bind_ok.1 h
    split at h
    · exact absurd h (by simp [Model.throw_ok])
    rename_i hleg
    have hb : b = true := by simpa using hleg
    subst hb
    obtain ⟨⟨v, sl, s1⟩, hch, h⟩ := Model.bind_ok.1 h
    have hgm := hgen mv List.mem_cons_self
    have C := hc _ _ _ _ _ _ _ _ _ _ hch (hcl _ _ _ _ hp (.inl hgm) hmk) hD hsub hint
    have hlow : -INF < v := C.lower (by omega)
    have hupp : v < INF := C.upper (by have := inf_pos; omega)
    obtain ⟨⟨a2, l2, s2⟩, himp, h⟩ := Model.bind_ok.1 h
    dsimp only at h himp
    have mid : SameShape s s2 ∧ rowPrefix s2 0 l2 ≠ [] ∧ LenOk s2 1 sl ∧ a2 < INF := by
      unfold Model.rootImprove at himp
      split at himp
      · obtain ⟨⟨s2', cl⟩, hu, himp⟩ := Model.bind_ok.1 himp
        obtain ⟨s3, hpr, himp⟩ := Model.bind_ok.1 himp
        simp only [Model.pure_ok, Prod.mk.injEq] at himp
        obtain ⟨rfl, rfl, rfl⟩ := himp
        obtain ⟨hcl2, hlen2, hsh2, hrows2, ⟨rows', hs2⟩, hline2⟩ := updateBestLine_spec hu
        have hne2 : rowPrefix s2'.consult 0 cl ≠ [] := by
          show rowPrefix s2' 0 cl ≠ []
          rw [hline2 C.lenOk]
          exact List.cons_ne_nil _ _
        have hr3 : s3.rows = s2'.rows := by
          unfold Model.rootPrint at hpr
          split at hpr
          · split at hpr
            · exact absurd hpr (by simp [Model.throw_ok])
            · simp only [Model.pure_ok] at hpr; subst hpr; rfl
          · simp only [Model.pure_ok] at hpr; subst hpr; rfl
        refine ⟨(C.shape.trans hsh2).trans (SameShape.of_rows_eq hr3), ?_,
          lenOk_of_rows_eq (C.lenOk.shape hsh2) hr3, by omega⟩
        rw [rowPrefix_congr (s := s2'.consult) (by rw [hr3]; rfl)]
        exact hne2
      · rename_i hngt
        simp only [Model.pure_ok, Prod.mk.injEq] at himp
        obtain ⟨rfl, rfl, rfl⟩ := himp
        refine ⟨C.shape, ?_, C.lenOk, hα⟩
        rw [rowPrefix_congr (C.below 0 Nat.zero_lt_one)]
        rcases hline with hline | ⟨_, _, rfl⟩
        · exact hline
        · exfalso; omega
    obtain ⟨sh2, hline2, hsub2, ha2⟩ := mid
    split at h
    · simp only [Model.pure_ok] at h; subst h; exact hline2
    split at h
    · simp only [Model.pure_ok] at h; subst h; exact hline2
    split at h
    · simp only [Model.pure_ok] at h; subst h; exact hline2
    obtain ⟨hrr, _⟩ := rootStop_spec env s2.consult
    have hrr' : (Model.rootStop env s2.consult).rows = s2.rows := hrr
    exact ih _ _ _ _ _ h (fun m hm => hgen m (List.mem_cons_of_mem _ hm))
      (by rw [hrr', sh2.size]; exact hD) (lenOk_of_rows_eq hsub2 hrr') ha2
      (.inl (by rw [rowPrefix_congr (s := s2) (by rw [hrr'])]; exact hline2))

/-- iteration 1 on a root with a generated move returns a non-empty best line — for every oracle -/
theorem startAlphaBeta_nonempty {env : Env} {G' : Nat → Position → Prop} {D : Nat} (H : PvHyps env G' D)
    {qfuel : Nat} {p : Position} {target curLen : Nat} {s : SS} {v : Int} {one : Bool} {len : Nat} {s' : SS}
    (h : startAlphaBeta env qfuel p target curLen s = .ok (v, one, len, s')) (hp : G' 0 p) (hD : s.rows.size ≤ D)
    (hint : s.interrupted = false)
    (hmoves : ∀ ms, generateMoves s.killers p = .ok ms → ms ≠ []) :
    rowPrefix s' 0 len ≠ [] := by
  simp only [startAlphaBeta] at h
  obtain ⟨subLen, hsl, h⟩ := Model.bind_ok.1 h
  obtain ⟨sub, hsub, rfl, hdlt⟩ := rowLen_ok hsl
  obtain ⟨ms, hms, h⟩ := Model.bind_ok.1 h
  have hne0 := hmoves ms hms
  split at h
  · rename_i hemp
    exact absurd (List.isEmpty_iff.1 hemp) hne0
  obtain ⟨r, hr, h⟩ := Model.bind_ok.1 h
  simp only [Model.pure_ok, Prod.mk.injEq] at h
  obtain ⟨rfl, rfl, rfl, rfl⟩ := h
  have hmovs := applyPvBonus_movs s.cand s.matched 0 ms
  have hgen : ∀ mv ∈ env.sortFn (applyPvBonus s.cand s.matched 0 ms).1, GenFull p mv.mov := by
    intro mv hmv
    refine ⟨s.killers, ms, hms, ?_⟩
    rw [← hmovs]
    exact List.mem_map.2 ⟨mv, H.sort.mem _ _ hmv, rfl⟩
  have hne' : env.sortFn (applyPvBonus s.cand s.matched 0 ms).1 ≠ [] := by
    apply H.sort.ne
    intro h0
    rw [h0] at hmovs
    exact hne0 (List.map_eq_nil_iff.1 hmovs.symm)
  rw [minusInf_eq'] at hr
  exact rootLoop_nonempty H.closed (alphaBeta_pv H qfuel (target - 1)) p target hp _ _ _ _ _ _ hr
    hgen hD (fun row hrow => by
      rw [show row = sub from Option.some.inj (hrow.symm.trans hsub)]; exact Nat.le_refl _)
    (by have := inf_pos; omega) (.inr ⟨hne', hint, rfl⟩)

/-! ### forced mate: the model's AND/OR solver is the rules' -/

theorem anyM'_of_ok {α} {f : α → M Bool} {g : α → Bool} {l : List α} (h : ∀ x ∈ l, f x = .ok (g x)) :
    anyM' f l = .ok (l.any g) := by
  induction l with
  | nil => rfl
  | cons x xs ih =>
    have hx := h x List.mem_cons_self
    have hxs := ih (fun y hy => h y (List.mem_cons_of_mem _ hy))
    simp only [anyM', hx, bind, Except.bind, List.any_cons]
    cases g x
    · simpa using hxs
    · rfl

theorem allM'_of_ok {α} {f : α → M Bool} {g : α → Bool} {l : List α} (h : ∀ x ∈ l, f x = .ok (g x)) :
    allM' f l = .ok (l.all g) := by
  induction l with
  | nil => rfl
  | cons x xs ih =>
    have hx := h x List.mem_cons_self
    have hxs := ih (fun y hy => h y (List.mem_cons_of_mem _ hy))
    simp only [allM', hx, bind, Except.bind, List.all_cons]
    cases g x
    · rfl
    · simpa using hxs

/-- `any` over the generated list = `any` over the rules' legal moves -/
theorem any_gen_eq {p : Position} {ms : List RMove} (hg : G p) (hms : generateMoves Killers.empty p = .ok ms)
    (f : Spec.Move → Bool) :
    (ms.any fun rm => f (absMove rm.mov)) = (Spec.legalMoves (abs p)).any f := by
  rw [← (LegalMoves.legal_perm hg.1 hg.2 hms).any_eq, List.any_map]
  rfl

theorem all_gen_eq {p : Position} {ms : List RMove} (hg : G p) (hms : generateMoves Killers.empty p = .ok ms)
    (f : Spec.Move → Bool) :
    (ms.all fun rm => f (absMove rm.mov)) = (Spec.legalMoves (abs p)).all f := by
  rw [← (LegalMoves.legal_perm hg.1 hg.2 hms).all_eq, List.all_map]
  rfl

theorem isEmpty_gen_eq {p : Position} {ms : List RMove} (hg : G p) (hms : generateMoves Killers.empty p = .ok ms) :
    ms.isEmpty = (Spec.legalMoves (abs p)).isEmpty := by
  have h := (LegalMoves.legal_perm hg.1 hg.2 hms).length_eq
  rw [List.length_map] at h
  cases ms with
  | nil =>
    have : Spec.legalMoves (abs p) = [] := List.length_eq_zero_iff.1 h.symm
    rw [this]
    rfl
  | cons a l =>
    cases hl : Spec.legalMoves (abs p) with
    | nil => rw [hl] at h; simp at h
    | cons _ _ => rfl

/-- checkmate on the model tree is the rules' checkmate -/
theorem matedM_spec {p : Position} (hg : G p) : matedM p = .ok (Spec.isMated (abs p)) := by
  obtain ⟨ms, hms, _⟩ := Total.generateMoves_total hg Props.C18.killers_empty_size
  rw [matedM_of_moves hms, isEmpty_gen_eq hg hms, LegalCount.inCheck_spec hg.1]
  unfold Spec.isMated
  generalize (Spec.legalMoves (abs p)).isEmpty = e
  generalize Spec.inCheck (abs p).board (abs p).turn = c
  cases e <;> rfl

/-- the child of a generated move: `childM` evaluates `f` at a good position denoting the rules' successor -/
theorem childM_spec {p : Position} {ms : List RMove} (hg : G p) (hms : generateMoves Killers.empty p = .ok ms)
    {rm : RMove} (hrm : rm ∈ ms) (f : Position → M Bool) :
    ∃ q, G q ∧ abs q = Spec.apply (abs p) (absMove rm.mov) ∧ childM p rm.mov f = f q := by
  have hgen : GenFull p rm.mov := ⟨_, ms, hms, List.mem_map.2 ⟨rm, hrm, rfl⟩⟩
  obtain ⟨q, hq⟩ := accepted_of_gen hg (.inl hgen)
  obtain ⟨_, habs, hgq⟩ := legal_of_gen hg (.inl hgen) hq
  exact ⟨q, hgq, habs, childM_eq f hq⟩

/-- **the model-level forced-mate solver computes the rules' forced mate**, at every length, on every good
    position: no corner differs (`n = 0`, stalemate and "mated now" are treated identically by
    `Spec.MateM.winsInM / losesInM` and `Spec.winsIn / losesIn`) -/
theorem mateM_spec : ∀ (n : Nat) {p : Position}, G p →
    winsInM n p = .ok (Spec.winsIn (abs p) n) ∧ losesInM n p = .ok (Spec.losesIn (abs p) n)
  | 0, p, hg => by
    refine ⟨by rw [winsInM, Spec.winsIn]; rfl, ?_⟩
    rw [losesInM, Spec.losesIn]
    exact matedM_spec hg
  | n + 1, p, hg => by
    obtain ⟨ms, hms, _⟩ := Total.generateMoves_total hg Props.C18.killers_empty_size
    constructor
    · rw [winsInM_succ_of_moves n hms, Spec.winsIn, ← any_gen_eq hg hms]
      refine anyM'_of_ok fun rm hrm => ?_
      obtain ⟨q, hq, habs, hc⟩ := childM_spec hg hms hrm (losesInM n)
      rw [hc, (mateM_spec n hq).2, habs]
    · rw [Spec.losesIn]
      by_cases hne : ms = []
      · subst hne
        have he : (Spec.legalMoves (abs p)).isEmpty = true := by rw [← isEmpty_gen_eq hg hms]; rfl
        rw [losesInM, matedM_spec hg]
        simp only [bind, Except.bind, hms, List.isEmpty_nil, if_true, he, Bool.not_true, Bool.false_and,
          Bool.or_false]
        cases Spec.isMated (abs p) <;> rfl
      · have he : (Spec.legalMoves (abs p)).isEmpty = false := by
          rw [← isEmpty_gen_eq hg hms]
          cases ms with
          | nil => exact absurd rfl hne
          | cons _ _ => rfl
        have hm : Spec.isMated (abs p) = false := by unfold Spec.isMated; rw [he]; rfl
        rw [losesInM_succ_of_moves n hms hne, hm, he, ← all_gen_eq hg hms]
        simp only [Bool.false_or, Bool.not_false, Bool.true_and]
        refine allM'_of_ok fun rm hrm => ?_
        obtain ⟨q, hq, habs, hc⟩ := childM_spec hg hms hrm (winsInM n)
        rw [hc, (mateM_spec n hq).1, habs]

theorem winsInM_spec {p : Position} (hg : G p) (n : Nat) : winsInM n p = .ok (Spec.winsIn (abs p) n) :=
  (mateM_spec n hg).1

theorem losesInM_spec {p : Position} (hg : G p) (n : Nat) : losesInM n p = .ok (Spec.losesIn (abs p) n) :=
  (mateM_spec n hg).2

theorem winsInM_iff {p : Position} (hg : G p) (n : Nat) (b : Bool) :
    winsInM n p = .ok b ↔ Spec.winsIn (abs p) n = b := by
  rw [winsInM_spec hg]
  exact ⟨fun h => Except.ok.inj h, fun h => by rw [h]⟩

theorem losesInM_iff {p : Position} (hg : G p) (n : Nat) (b : Bool) :
    losesInM n p = .ok b ↔ Spec.losesIn (abs p) n = b := by
  rw [losesInM_spec hg]
  exact ⟨fun h => Except.ok.inj h, fun h => by rw [h]⟩

/-! ### the minimax specification value is defined on good positions -/

open Magog.Spec.Minimax in
theorem foldMax_total {cv : Move → M Int} : ∀ (l : List Move) (acc : Int), (∀ m ∈ l, ∃ v, cv m = .ok v) →
    ∃ w, foldMax cv l acc = .ok w
  | [], acc, _ => ⟨acc, rfl⟩
  | m :: ms, acc, h => by
    obtain ⟨v, hv⟩ := h m List.mem_cons_self
    obtain ⟨w, hw⟩ := foldMax_total ms (max acc v) (fun x hx => h x (List.mem_cons_of_mem _ hx))
    exact ⟨w, by simp only [foldMax, hv, bind, Except.bind]; exact hw⟩

open Magog.Spec.Minimax in
theorem childVal_total {f : Position → M Int} {p q : Position} {m : Move} (hmk : makeMove p m = .ok (q, true))
    (hf : ∃ v, f q = .ok v) : ∃ v, childVal f p m = .ok v := by
  obtain ⟨v, hv⟩ := hf
  exact ⟨-v, by simp only [childVal, hmk, bind, Except.bind, Bool.not_true, Bool.false_eq_true, if_false, hv]; rfl⟩

open Magog.Spec.Minimax in
/-- the quiescence value is defined as soon as the fuel exceeds the measure `mu` (every tactical move lowers it) -/
theorem QV_total (blend : Blend) : ∀ (fuel : Nat) (p : Position) (depth : Nat), G p → TotalMeasure.mu p < fuel →
    ∃ w, QV blend fuel p depth = .ok w
  | 0, _, _, _, h => absurd h (Nat.not_lt_zero _)
  | f + 1, p, depth, hg, hf => by
    obtain ⟨e, he⟩ := Total.evaluate_total hg blend depth
    obtain ⟨ts, hts, hall⟩ := Total.generateTacticalMoves_total hg
    have hkids : ∀ m ∈ ts.map (·.mov), ∃ v, childVal (fun q => QV blend f q (depth + 1)) p m = .ok v := by
      intro m hm
      obtain ⟨rm, hrm, rfl⟩ := List.mem_map.1 hm
      obtain ⟨hG, q, hq⟩ := hall rm hrm
      have hdec := TotalMeasure.tactical_decreases hg.1 hg.2 hts hrm hq
      exact childVal_total hq (QV_total blend f q (depth + 1) (Total.G_child hg hG hq) (by omega))
    obtain ⟨w, hw⟩ := foldMax_total (ts.map (·.mov)) e hkids
    exact ⟨w, by simp only [QV, he, hts, bind, Except.bind]; exact hw⟩

open Magog.Spec.Minimax in
/-- the minimax value `V` is defined on every good position, for every depth, when the quiescence fuel exceeds the
    source constant `maxQuiescenceDepth` -/
theorem V_total (blend : Blend) {qfuel : Nat} (hq : Gen.maxQuiescenceDepth < qfuel) :
    ∀ (rem : Nat) (p : Position) (depth : Nat), G p → ∃ w, V blend qfuel rem p depth = .ok w
  | 0, p, depth, hg => by
    rw [V]
    exact QV_total blend qfuel p depth hg (Nat.lt_of_le_of_lt (TotalMeasure.mu_le hg.1) hq)
  | rem + 1, p, depth, hg => by
    obtain ⟨ms, hms, hall⟩ := Total.generateMoves_total hg Props.C18.killers_empty_size
    have hkids : ∀ m ∈ ms.map (·.mov), ∃ v, childVal (fun q => V blend qfuel rem q (depth + 1)) p m = .ok v := by
      intro m hm
      obtain ⟨rm, hrm, rfl⟩ := List.mem_map.1 hm
      obtain ⟨hG, q, hq'⟩ := hall rm hrm
      exact childVal_total hq' (V_total blend hq rem q (depth + 1) (Total.G_child hg hG hq'))
    rw [V]
    simp only [hms, bind, Except.bind]
    cases hl : ms.map (·.mov) with
    | nil => exact Total.terminalNodeScore_total hg depth
    | cons m rest =>
      rw [hl] at hkids
      obtain ⟨v, hv⟩ := hkids m List.mem_cons_self
      obtain ⟨w, hw⟩ := foldMax_total rest v (fun x hx => hkids x (List.mem_cons_of_mem _ hx))
      exact ⟨w, by simp only [hv]; exact hw⟩

open Magog.Spec.Minimax in
theorem rootV_total (blend : Blend) {qfuel : Nat} (hq : Gen.maxQuiescenceDepth < qfuel) (target : Nat)
    {p : Position} (hg : G p) : ∃ w, rootV blend qfuel target p = .ok w :=
  V_total blend hq _ p 0 hg

/-! ### `oneLegalMove` in the terms of the rules -/

/-- the number of moves the generator lists is the number of legal moves of the rules -/
theorem gen_length {p : Position} {kt : Killers} {ms : List RMove} (hg : G p) (hms : generateMoves kt p = .ok ms) :
    ms.length = (Spec.legalMoves (abs p)).length := by
  rw [← (LegalMoves.legal_perm hg.1 hg.2 hms).length_eq, List.length_map]

/-- the flag `oneLegalMove` returned by an iteration is the rules' "exactly one legal move" -/
theorem one_spec {env : Env} (hps : PermSort env) {qfuel : Nat} {p : Position} (hg : G p) {target curLen : Nat}
    {s : SS} {v : Int} {one : Bool} {len : Nat} {s' : SS}
    (h : startAlphaBeta env qfuel p target curLen s = .ok (v, one, len, s')) :
    one = true ↔ (Spec.legalMoves (abs p)).length = 1 := by
  simp only [startAlphaBeta] at h
  obtain ⟨subLen, _, h⟩ := Model.bind_ok.1 h
  obtain ⟨ms, hms, h⟩ := Model.bind_ok.1 h
  have hlen := gen_length hg hms
  split at h
  · rename_i hemp
    obtain ⟨tv, _, h⟩ := Model.bind_ok.1 h
    simp only [Model.pure_ok, Prod.mk.injEq] at h
    obtain ⟨_, rfl, _, _⟩ := h
    have : ms = [] := List.isEmpty_iff.1 hemp
    subst this
    simp only [List.length_nil] at hlen
    simp only [Bool.false_eq_true, false_iff]
    omega
  · obtain ⟨r, _, h⟩ := Model.bind_ok.1 h
    simp only [Model.pure_ok, Prod.mk.injEq] at h
    obtain ⟨_, rfl, _, _⟩ := h
    have h1 : (env.sortFn (applyPvBonus s.cand s.matched 0 ms).1).length = ms.length := by
      rw [(hps _).length_eq]
      have := congrArg List.length (applyPvBonus_movs s.cand s.matched 0 ms)
      simpa using this
    rw [beq_iff_eq, h1, hlen]

/-! ### witnesses for the examples -/

/-- lazy evaluation, a sort that really reorders (reverse), and a clock, a stop channel and a print gate that fire
    at arbitrary consultations -/
def noisyEnv : Env :=
  { demoEnvLazy with timeUp := fun n => n % 7 == 3, stopAt := fun n => n % 5 == 1, gateOpen := fun n => n % 2 == 0 }

theorem start_has_moves : Spec.legalMoves (abs startPosition) ≠ [] := fun h => by
  have := (Props.C01.legalMoves_spec (abs startPosition)).2 ⟨12, 28, none⟩
  rw [h] at this
  exact absurd (this.2 GenExamples.start_e2e4_legal) (by simp)

/-- `m1Pos` (White Kb6, Pc7 against Ka8, White to move) is a good position -/
theorem m1_good : G m1Pos := ⟨m1_inv, Count.okVal_eq_some (by decide +kernel)⟩

theorem start_legal_count : (Spec.legalMoves (abs startPosition)).length = 20 := by
  obtain ⟨ms, hms, _⟩ := Total.generateMoves_total Total.G_start Props.C18.killers_empty_size
  have h := LegalWitness.start_gen_len
  rw [hms] at h
  rw [← gen_length Total.G_start hms]
  exact Option.some.inj h

theorem foolsMate_good : G foolsMate := ⟨LegalWitness.inv_foolsMate, LegalWitness.oppSafe_foolsMate⟩

end Magog.Capstone
