import Magog.Lemmas.FenWriteCount
import Magog.Lemmas.FenFaithful

/-! C08 round trip, assembly: the text written by `Spec.toFenBytes` for a legal position passes every test
    of the loader, and the loaded position abstracts to the position written. -/

set_option linter.unusedSimpArgs false

namespace Magog.FenWrite
open Magog Magog.Model Magog.FenSpec Magog.FenLemmas

/-! ### acceptance of each stage of `parseFen` (stages as cut in `Lemmas/Fen.lean`) -/

theorem parseFen_of (s : Bytes) (fields rows : List Bytes) (p0 : Position) (hasc : ∀ c ∈ s, c ≤ 127)
    (hf : splitOn 32 s = fields) (h6 : fields.length = 6) (hr : splitOn 47 (fields.getD 0 []) = rows)
    (h8 : rows.length = 8) (hp : fenRanks rows 0 emptyPosition = .ok (.ok p0)) :
    parseFen s = tailKings fields p0 := by
  have ha : ¬ (s.any (· > 127) = true) := by
    simp only [List.any_eq_true, decide_eq_true_eq, not_exists, not_and, Nat.not_lt]
    exact hasc
  rw [parseFen_eq, if_neg ha, hf, if_neg (by simp [h6]), hr, if_neg (by simp [h8]), hp]
  rfl

theorem tailKings_of (fields : List Bytes) (p : Position)
    (hw : countKings p.board Gen.WKing = 1) (hb : countKings p.board Gen.BKing = 1)
    (ht : fields.getD 1 [] = [119] ∨ fields.getD 1 [] = [98]) (he : (fields.getD 3 []).length ≤ 2) :
    tailKings fields p = tailEp fields p (flagsOf fields) (epParse (fields.getD 3 [])) := by
  unfold tailKings
  rw [if_neg (by simp [hw, hb])]
  dsimp only
  rw [if_neg (by rcases ht with h | h <;> rw [h] <;> decide), if_neg (by omega)]

theorem tailEp_of (fields : List Bytes) (p0 : Position) (flags ep : Nat)
    (hep : ep = InvalidSq ∨ epConsistent { p0 with flags := flags, ep := ep } = .ok true)
    (hc : castlingConsistent { p0 with flags := flags, ep := ep } = true) :
    tailEp fields p0 flags (.ok ep) = tailCheck fields { p0 with flags := flags, ep := ep } flags := by
  unfold tailEp
  dsimp only
  by_cases h' : (ep == InvalidSq) = true
  · rw [if_pos h', bind_ok' _ (rfl : (pure true : M Bool) = .ok true)]
    simp [hc]
  · rw [if_neg h']
    have h : epConsistent { p0 with flags := flags, ep := ep } = .ok true := by
      rcases hep with h | h
      · exact absurd (by simpa using h) h'
      · exact h
    rw [bind_ok' _ h]
    simp [hc]

theorem tailCheck_of (fields : List Bytes) (p : Position) (flags : Nat)
    (h : isUnderCheck p.board (p.side (whiteTurn p)) (p.side (!whiteTurn p)).king = .ok false) :
    tailCheck fields p flags = tailPly fields p flags := by
  unfold tailCheck
  rw [bind_ok' _ h]
  simp

theorem tailPly_of (fields : List Bytes) (p : Position) (flags : Nat) (n : Nat)
    (ha : atoi (fields.getD 5 []) = some (n : Int)) (h1 : 1 ≤ n) (h2 : n ≤ Gen.maxFullMoveCounter) :
    tailPly fields p flags =
      .ok (.ok { p with ply := 2 * ((n : Int) - 1) + (if flags &&& FWhiteTurn = 0 then 1 else 0) }) := by
  unfold tailPly
  rw [ha]
  dsimp only
  have h2' : (n : Int) ≤ (Gen.maxFullMoveCounter : Int) := by exact_mod_cast h2
  rw [if_neg (by omega), if_neg (by omega)]
  simp only [Gen.maxFullMoveCounter] at h2'
  have e1 : wrap16 (((n : Int) - 1) * 2) = ((n : Int) - 1) * 2 := wrap16_id (by omega) (by omega)
  have e2 : wrap16 (((n : Int) - 1) * 2 + 1) = ((n : Int) - 1) * 2 + 1 := wrap16_id (by omega) (by omega)
  by_cases hw : flags &&& FWhiteTurn = 0
  · simp only [hw, beq_self_eq_true, if_true, e1, e2, pure, Except.pure]
    congr 3
    omega
  · have hw' : (flags &&& FWhiteTurn == 0) = false := by simpa using hw
    simp only [hw, hw', Bool.false_eq_true, if_false, e1, pure, Except.pure]
    congr 3
    omega

/-! ### the placement field -/

theorem optCode_pawn {o : Option Spec.Man} (h : optCode o = Gen.WPawn ∨ optCode o = Gen.BPawn) :
    ∃ c, o = some ⟨c, .pawn⟩ := by
  cases o with
  | none => exact absurd h (by decide)
  | some m =>
    obtain ⟨c, k⟩ := m
    cases k
    · exact ⟨c, rfl⟩
    all_goals (cases c <;> exact absurd h (by decide))

theorem expand_rank_get (P : Spec.Pos) (r j : Nat) (hj : j < 8) :
    (expandRank (Spec.fenRankBytes P r))[j]? = some (optCode (P.at (Spec.mkSq j r))) := by
  rw [expand_rank, List.getElem?_map, List.getElem?_range hj]
  rfl

/-- the placement field written for a legal position is accepted and places exactly its men -/
theorem placement_accept {P : Spec.Pos} (hL : LegalFacts P) :
    ∃ p0, fenRanks (rankRows P) 0 emptyPosition = .ok (.ok p0) ∧ PInv 0 0 p0 ∧ BoardIs P p0.board := by
  have hacc : ∃ p0, fenRanks (rankRows P) 0 emptyPosition = .ok (.ok p0) := by
    apply fenRanks_accept (rankRows P) 0 emptyPosition rfl (by simp [emptyPosition])
    · intro row hrow
      obtain ⟨r, _, rfl⟩ := rankRows_mem P row hrow
      exact ⟨fun c hc => (rank_bytes P r c hc).2.2.2, by simp [expand_rank]⟩
    · intro m row hrow hm
      obtain ⟨hm8, rfl⟩ := rankRows_get_inv P m row hrow
      intro v hv
      rw [expand_rank, List.mem_map] at hv
      obtain ⟨x, hx, rfl⟩ := hv
      have hx8 : x < 8 := List.mem_range.1 hx
      have key : ¬ (optCode (P.at (Spec.mkSq x (7 - m))) = Gen.WPawn ∨ optCode (P.at (Spec.mkSq x (7 - m))) = Gen.BPawn) := by
        intro hp
        obtain ⟨c, hc⟩ := optCode_pawn hp
        have hlt : Spec.mkSq x (7 - m) < 64 := by
          show ((7 - m) * 8 + x : Nat) < 64
          omega
        have := hL.backPawn (Spec.mkSq x (7 - m)) hlt c hc
        have e : Spec.rankOf (Spec.mkSq x (7 - m)) = ((7 - m) * 8 + x) / 8 := rfl
        rw [e] at this
        omega
      exact ⟨fun e => key (Or.inl e), fun e => key (Or.inr e)⟩
    · exact room_of_legal hL
  obtain ⟨p0, hp0⟩ := hacc
  obtain ⟨r, hr, hspec⟩ := fenRanks_spec (rankRows P) 0 emptyPosition rfl PInv_empty
  rw [hp0] at hr
  have hr' : r = .ok p0 := (Except.ok.inj hr).symm
  obtain ⟨hP, hF, _⟩ := hspec p0 hr'
  refine ⟨p0, hp0, hP, hP.size, ?_, ?_⟩
  · intro i hi
    obtain ⟨_, hrow⟩ := hF (7 - i / 8) _ (rankRows_get P (7 - i / 8) (by omega))
    have e7 : 7 - (7 - i / 8) = i / 8 := by omega
    rw [e7] at hrow
    have := hrow (i % 8) _ (expand_rank_get P (i / 8) (i % 8) (by omega))
    simp only [Nat.zero_add, e7] at this
    have e2 : Spec.mkSq (i % 8) (i / 8) = i := by
      show (i / 8 * 8 + i % 8 : Nat) = i
      omega
    rw [e2] at this
    exact this
  · intro i hi hv
    by_cases hz : p0.board.getD i 0 = 0
    · exact hz
    · have := hP.region i hz; omega

/-! ### facts about a board that holds the men of `P` -/

theorem BoardIs.bget {P : Spec.Pos} {b : Array Nat} (hb : BoardIs P b) {i : Nat} (hi : i < 64) :
    bget b (to88 i) = .ok (optCode (P.at i)) := by
  have hlt : to88 i < b.size := by rw [hb.1]; simp only [to88]; omega
  rw [bget_total hlt, ← hb.2.1 i hi]
  simp [Array.getD_eq_getD_getElem?, hlt]

theorem BoardIs.abs {P : Spec.Pos} {b : Array Nat} (hb : BoardIs P b) (hs : P.board.size = 64) :
    absBoard b = P.board := by
  apply Array.ext
  · simp [absBoard, hs]
  · intro i h1 h2
    simp only [absBoard, Array.size_ofFn] at h1
    simp only [absBoard, Array.getElem_ofFn, hb.2.1 i h1, decode_optCode, Spec.Pos.at]
    simp [Array.getD_eq_getD_getElem?, h2]

/-! ### the side, castling and en-passant fields -/

def turnBytes (P : Spec.Pos) : Bytes := if P.turn == .white then [119] else [98]

/-- the six fields of the written text -/
def fieldsOf (P : Spec.Pos) (n : Nat) : List Bytes :=
  [Spec.joinBytes 47 (rankRows P), turnBytes P, Spec.castleBytes P, Spec.epBytes P, [48], Spec.natDigits n]

theorem castle_contains (P : Spec.Pos) :
    containsByte (Spec.castleBytes P) 75 = P.wk ∧ containsByte (Spec.castleBytes P) 81 = P.wq ∧
    containsByte (Spec.castleBytes P) 107 = P.bk ∧ containsByte (Spec.castleBytes P) 113 = P.bq := by
  obtain ⟨board, turn, wk, wq, bk, bq, ep⟩ := P
  cases wk <;> cases wq <;> cases bk <;> cases bq <;> exact ⟨rfl, rfl, rfl, rfl⟩

theorem castle_bytes (P : Spec.Pos) : ∀ c ∈ Spec.castleBytes P, c ≠ 32 ∧ c ≤ 127 := by
  obtain ⟨board, turn, wk, wq, bk, bq, ep⟩ := P
  cases wk <;> cases wq <;> cases bk <;> cases bq <;>
    (intro c hc; simp [Spec.castleBytes] at hc; omega)

theorem turn_bytes (P : Spec.Pos) :
    (turnBytes P = [119] ∨ turnBytes P = [98]) ∧ (turnBytes P == [119]) = (P.turn == .white) ∧
    ∀ c ∈ turnBytes P, c ≠ 32 ∧ c ≤ 127 := by
  unfold turnBytes
  cases P.turn <;> decide

/-- bit facts used for the en-passant square, by enumeration of the 64 squares -/
theorem ep_table : ∀ e < 64,
    isValid (to88 e) = true ∧ to88 e ≠ InvalidSq ∧ (to88 e == InvalidSq) = false ∧
    ((e % 8) + (((e / 8 + 49 - 49) <<< 4) % 256)) = to88 e ∧
    (e / 8 = 5 → (to88 e + 256 - Gen.UnitRank) % 256 = to88 (e - 8) ∧ (to88 e + Gen.UnitRank) % 256 = to88 (e + 8) ∧
      Model.rankOf (to88 e) = Gen.Rank6 ∧ e - 8 < 64 ∧ e + 8 < 64) ∧
    (e / 8 = 2 → (to88 e + 256 - Gen.UnitRank) % 256 = to88 (e - 8) ∧ (to88 e + Gen.UnitRank) % 256 = to88 (e + 8) ∧
      Model.rankOf (to88 e) = Gen.Rank3 ∧ e - 8 < 64 ∧ e + 8 < 64) := by decide

/-- the loader's reading of the en-passant field -/
def epOf (P : Spec.Pos) : Nat := match P.ep with | some e => to88 e | none => InvalidSq

theorem ep_field_some {P : Spec.Pos} (hL : LegalFacts P) (e : Nat) (he : P.ep = some e) :
    epParse (Spec.sqNameBytes e) = .ok (to88 e) ∧ (Spec.sqNameBytes e).length ≤ 2 ∧
    ∀ c ∈ Spec.sqNameBytes e, c ≠ 32 ∧ c ≤ 127 := by
  obtain ⟨h64, hw, hb⟩ := hL.ep e he
  have hr : e / 8 = 5 ∨ e / 8 = 2 := by
    cases ht : P.turn with
    | white => exact Or.inl (hw ht).1
    | black => exact Or.inr (hb ht).1
  have hs : Spec.sqNameBytes e = [97 + e % 8, 49 + e / 8] := rfl
  rw [hs]
  refine ⟨?_, by simp, ?_⟩
  · simp only [epParse]
    rw [if_neg]
    · have := (ep_table e h64).2.2.2.1
      have e1 : 97 + e % 8 - 97 = e % 8 := by omega
      have e2 : 49 + e / 8 - 49 = e / 8 + 49 - 49 := by omega
      rw [e1, e2, this]
    · simp only [Bool.or_eq_true, Bool.and_eq_true, decide_eq_true_eq, bne_iff_ne, ne_eq, not_or, not_and,
        Decidable.not_not, Nat.not_lt]
      omega
  · intro c hc
    simp only [List.mem_cons, List.not_mem_nil, or_false] at hc
    omega

theorem ep_field {P : Spec.Pos} (hL : LegalFacts P) :
    epParse (Spec.epBytes P) = .ok (epOf P) ∧ (Spec.epBytes P).length ≤ 2 ∧
    ∀ c ∈ Spec.epBytes P, c ≠ 32 ∧ c ≤ 127 := by
  unfold Spec.epBytes epOf
  cases he : P.ep with
  | none => exact ⟨rfl, by decide, by decide⟩
  | some e => exact ep_field_some hL e he

theorem epConsistent_of {P : Spec.Pos} (hL : LegalFacts P) {p0 : Position} (hb : BoardIs P p0.board) (flags : Nat)
    (hw : (flags &&& FWhiteTurn != 0) = (P.turn == .white)) :
    epOf P = InvalidSq ∨ epConsistent { p0 with flags := flags, ep := epOf P } = .ok true := by
  unfold epOf
  cases he : P.ep with
  | none => exact Or.inl rfl
  | some e =>
    right
    obtain ⟨h64, hwt, hbt⟩ := hL.ep e he
    obtain ⟨_, _, _, _, t5, t2⟩ := ep_table e h64
    unfold epConsistent
    have hwt' : whiteTurn { p0 with flags := flags, ep := to88 e } = (P.turn == .white) := hw
    dsimp only
    rw [hwt']
    cases ht : P.turn with
    | white =>
      obtain ⟨hr, h0, h1, h2⟩ := hwt ht
      obtain ⟨a1, a2, a3, a4, a5⟩ := t5 hr
      have hbeq : (Spec.Color.white == Spec.Color.white) = true := rfl
      simp only [hbeq, if_true]
      rw [a1, a2, hb.bget h64, hb.bget a4, hb.bget a5, h0, h1, h2, a3]
      rfl
    | black =>
      obtain ⟨hr, h0, h1, h2⟩ := hbt ht
      obtain ⟨a1, a2, a3, a4, a5⟩ := t2 hr
      have hbeq : (Spec.Color.black == Spec.Color.white) = false := rfl
      simp only [hbeq, Bool.false_eq_true, if_false]
      rw [a1, a2, hb.bget h64, hb.bget a4, hb.bget a5, h0, h1, h2, a3]
      rfl

theorem castling_of {P : Spec.Pos} (hL : LegalFacts P) {p0 : Position} (hb : BoardIs P p0.board) (flags ep : Nat)
    (h1 : (flags &&& FWK != 0) = P.wk) (h2 : (flags &&& FWQ != 0) = P.wq)
    (h3 : (flags &&& FBK != 0) = P.bk) (h4 : (flags &&& FBQ != 0) = P.bq) :
    castlingConsistent { p0 with flags := flags, ep := ep } = true := by
  have g : ∀ i, i < 64 → p0.board.getD (to88 i) 0 = optCode (P.at i) := hb.2.1
  have g4 : p0.board.getD Gen.E1 0 = optCode (P.at 4) := g 4 (by omega)
  have g7 : p0.board.getD Gen.H1 0 = optCode (P.at 7) := g 7 (by omega)
  have g0 : p0.board.getD Gen.A1 0 = optCode (P.at 0) := g 0 (by omega)
  have g60 : p0.board.getD Gen.E8 0 = optCode (P.at 60) := g 60 (by omega)
  have g63 : p0.board.getD Gen.H8 0 = optCode (P.at 63) := g 63 (by omega)
  have g56 : p0.board.getD Gen.A8 0 = optCode (P.at 56) := g 56 (by omega)
  unfold castlingConsistent
  dsimp only
  rw [h1, h2, h3, h4, g4, g7, g0, g60, g63, g56]
  have c1 : (P.wk && (optCode (P.at 4) != Gen.WKing || optCode (P.at 7) != Gen.WRook)) = false := by
    cases hk : P.wk with
    | false => rfl
    | true => obtain ⟨a, b⟩ := hL.wk hk; rw [a, b]; rfl
  have c2 : (P.wq && (optCode (P.at 4) != Gen.WKing || optCode (P.at 0) != Gen.WRook)) = false := by
    cases hk : P.wq with
    | false => rfl
    | true => obtain ⟨a, b⟩ := hL.wq hk; rw [a, b]; rfl
  have c3 : (P.bk && (optCode (P.at 60) != Gen.BKing || optCode (P.at 63) != Gen.BRook)) = false := by
    cases hk : P.bk with
    | false => rfl
    | true => obtain ⟨a, b⟩ := hL.bk hk; rw [a, b]; rfl
  have c4 : (P.bq && (optCode (P.at 60) != Gen.BKing || optCode (P.at 56) != Gen.BRook)) = false := by
    cases hk : P.bq with
    | false => rfl
    | true => obtain ⟨a, b⟩ := hL.bq hk; rw [a, b]; rfl
  rw [c1, c2, c3, c4]
  rfl

/-- the side not to move is not in check: the loader's `isOpponentKingUnderCheck` test passes -/
theorem oppCheck_of {P : Spec.Pos} (hL : LegalFacts P) {p0 : Position} (hP : PInv 0 0 p0)
    (hb : BoardIs P p0.board) (flags ep : Nat) (hw : (flags &&& FWhiteTurn != 0) = (P.turn == .white)) :
    isUnderCheck ({ p0 with flags := flags, ep := ep } : Position).board
      (({ p0 with flags := flags, ep := ep } : Position).side (whiteTurn { p0 with flags := flags, ep := ep }))
      (({ p0 with flags := flags, ep := ep } : Position).side (!whiteTurn { p0 with flags := flags, ep := ep })).king
      = .ok false := by
  have hwk : countKings p0.board Gen.WKing = 1 := by
    rw [← hL.wKing]; exact countKings_boardIs hb .white
  have hbk : countKings p0.board Gen.BKing = 1 := by
    rw [← hL.bKing]; exact countKings_boardIs hb .black
  obtain ⟨hbo, hs⟩ := placed_sides p0 hP hwk hbk
  have hwt : whiteTurn { p0 with flags := flags, ep := ep } = (P.turn == .white) := hw
  rw [hwt]
  show isUnderCheck p0.board (p0.side (P.turn == .white)) (p0.side (!(P.turn == .white))).king = .ok false
  have h := Atk.inCheck_eq (me := p0.side (!(P.turn == .white))) (enemy := p0.side (P.turn == .white))
    (w := !(P.turn == .white)) hbo (hs _) (by rw [Bool.not_not]; exact hs _)
  rw [h, hb.abs hL.size]
  have hc : Atk.colorOf (!(P.turn == .white)) = P.turn.other := by
    cases P.turn <;> rfl
  rw [hc, hL.safe]

/-! ### the whole text -/

theorem toFenBytes_eq (P : Spec.Pos) (n : Nat) :
    Spec.toFenBytes P n = Spec.joinBytes 47 (rankRows P) ++ 32 :: (turnBytes P ++ 32 :: (Spec.castleBytes P ++ 32 ::
      (Spec.epBytes P ++ 32 :: ([48] ++ 32 :: Spec.natDigits n)))) := by
  simp only [Spec.toFenBytes, rankRows, turnBytes, List.append_assoc, List.cons_append, List.nil_append]

theorem placement_bytes (P : Spec.Pos) : ∀ c ∈ Spec.joinBytes 47 (rankRows P), c ≠ 32 ∧ c ≤ 127 := by
  intro c hc
  rcases mem_join _ hc with rfl | ⟨row, hrow, hcr⟩
  · decide
  · obtain ⟨r, _, rfl⟩ := rankRows_mem P row hrow
    have := rank_bytes P r c hcr
    exact ⟨this.2.1, this.2.2.1⟩

theorem digits_bytes (n : Nat) : ∀ c ∈ Spec.natDigits n, c ≠ 32 ∧ c ≤ 127 := by
  intro c hc
  have := (natDigits_spec n).2.1 c hc
  omega

theorem split_fields {P : Spec.Pos} (hL : LegalFacts P) (n : Nat) :
    splitOn 32 (Spec.toFenBytes P n) = fieldsOf P n ∧ ∀ c ∈ Spec.toFenBytes P n, c ≤ 127 := by
  have n1 : (32 : Nat) ∉ Spec.joinBytes 47 (rankRows P) := fun h => (placement_bytes P 32 h).1 rfl
  have n2 : (32 : Nat) ∉ turnBytes P := fun h => ((turn_bytes P).2.2 32 h).1 rfl
  have n3 : (32 : Nat) ∉ Spec.castleBytes P := fun h => (castle_bytes P 32 h).1 rfl
  have n4 : (32 : Nat) ∉ Spec.epBytes P := fun h => ((ep_field hL).2.2 32 h).1 rfl
  have n5 : (32 : Nat) ∉ [48] := by decide
  have n6 : (32 : Nat) ∉ Spec.natDigits n := fun h => (digits_bytes n 32 h).1 rfl
  constructor
  · rw [toFenBytes_eq, splitOn_append _ _ _ n1, splitOn_append _ _ _ n2, splitOn_append _ _ _ n3,
      splitOn_append _ _ _ n4, splitOn_append _ _ _ n5, splitOn_noSep _ _ n6]
    rfl
  · intro c hc
    rw [toFenBytes_eq] at hc
    simp only [List.mem_append, List.mem_cons, List.not_mem_nil, or_false] at hc
    rcases hc with h | rfl | h | rfl | h | rfl | h | rfl | rfl | rfl | h
    · exact (placement_bytes P c h).2
    · omega
    · exact ((turn_bytes P).2.2 c h).2
    · omega
    · exact (castle_bytes P c h).2
    · omega
    · exact ((ep_field hL).2.2 c h).2
    · omega
    · omega
    · omega
    · exact (digits_bytes n c h).2

theorem split_ranks (P : Spec.Pos) : splitOn 47 (Spec.joinBytes 47 (rankRows P)) = rankRows P := by
  apply splitOn_join 47 (rankRows P) (by simp [rankRows])
  intro row hrow h
  obtain ⟨r, _, rfl⟩ := rankRows_mem P row hrow
  exact (rank_bytes P r 47 h).1 rfl

theorem pos_ext {A B : Spec.Pos} (h1 : A.board = B.board) (h2 : A.turn = B.turn) (h3 : A.wk = B.wk)
    (h4 : A.wq = B.wq) (h5 : A.bk = B.bk) (h6 : A.bq = B.bq) (h7 : A.ep = B.ep) : A = B := by
  cases A; cases B; simp_all

/-- **round trip**: the text written for a legal position is accepted, and the loaded position is the one written -/
theorem roundtrip {P : Spec.Pos} {n : Nat} (hLegal : Spec.Legal P = true) (h1 : 1 ≤ n)
    (h2 : n ≤ Gen.maxFullMoveCounter) :
    ∃ p, parseFen (Spec.toFenBytes P n) = .ok (.ok p) ∧ abs p = P ∧
      p.ply = 2 * ((n : Int) - 1) + (if P.turn = .white then 0 else 1) := by
  have hL := legalFacts hLegal
  obtain ⟨hsplit, hascii⟩ := split_fields hL n
  obtain ⟨p0, hp0, hP, hb⟩ := placement_accept hL
  obtain ⟨ht1, ht2, _⟩ := turn_bytes P
  obtain ⟨he1, he2, _⟩ := ep_field hL
  obtain ⟨c1, c2, c3, c4⟩ := castle_contains P
  obtain ⟨g0, g1, g2, g3, g4, _⟩ :
      (flagsOf (fieldsOf P n) &&& FWhiteTurn != 0) = (turnBytes P == [119]) ∧
      (flagsOf (fieldsOf P n) &&& FWK != 0) = containsByte (Spec.castleBytes P) 75 ∧
      (flagsOf (fieldsOf P n) &&& FWQ != 0) = containsByte (Spec.castleBytes P) 81 ∧
      (flagsOf (fieldsOf P n) &&& FBK != 0) = containsByte (Spec.castleBytes P) 107 ∧
      (flagsOf (fieldsOf P n) &&& FBQ != 0) = containsByte (Spec.castleBytes P) 113 ∧
      flagsOf (fieldsOf P n) < 32 :=
    flagsOf_bits (Spec.joinBytes 47 (rankRows P)) (turnBytes P) (Spec.castleBytes P)
      (Spec.epBytes P) [48] (Spec.natDigits n)
  rw [ht2] at g0
  rw [c1] at g1; rw [c2] at g2; rw [c3] at g3; rw [c4] at g4
  have hwk : countKings p0.board Gen.WKing = 1 := by
    rw [← hL.wKing]; exact countKings_boardIs hb .white
  have hbk : countKings p0.board Gen.BKing = 1 := by
    rw [← hL.bKing]; exact countKings_boardIs hb .black
  have hatoi : atoi ((fieldsOf P n).getD 5 []) = some (n : Int) :=
    atoi_natDigits n (by simp only [Gen.maxFullMoveCounter] at h2; omega)
  have hparse := parseFen_of (Spec.toFenBytes P n) (fieldsOf P n) (rankRows P) p0 hascii hsplit rfl (split_ranks P) rfl hp0
  rw [hparse, tailKings_of (fieldsOf P n) p0 hwk hbk ht1 he2]
  show ∃ p, tailEp (fieldsOf P n) p0 (flagsOf (fieldsOf P n)) (epParse (Spec.epBytes P)) = .ok (.ok p) ∧ _
  rw [he1, tailEp_of _ _ _ _ (epConsistent_of hL hb _ g0) (castling_of hL hb _ _ g1 g2 g3 g4),
    tailCheck_of _ _ _ (oppCheck_of hL hP hb _ _ g0), tailPly_of _ _ _ n hatoi h1 h2]
  refine ⟨_, rfl, ?_, ?_⟩
  · apply pos_ext
    · exact hb.abs hL.size
    · show (if (flagsOf (fieldsOf P n) &&& FWhiteTurn != 0) = true then Spec.Color.white else Spec.Color.black) = P.turn
      rw [g0]
      cases P.turn <;> rfl
    · exact g1
    · exact g2
    · exact g3
    · exact g4
    · show (if isValid (epOf P) = true then some (to64 (epOf P)) else none) = P.ep
      unfold epOf
      cases he : P.ep with
      | none => rfl
      | some e =>
        have h64 := (hL.ep e he).1
        simp only [(ep_table e h64).1, if_true, Atk.to64_to88 h64]
  · show 2 * ((n : Int) - 1) + (if flagsOf (fieldsOf P n) &&& FWhiteTurn = 0 then 1 else 0) = _
    cases ht : P.turn with
    | white =>
      rw [ht] at g0
      have hne : ¬ (flagsOf (fieldsOf P n) &&& FWhiteTurn = 0) := by
        have hbw : (Spec.Color.white == Spec.Color.white) = true := rfl
        rw [hbw] at g0
        simpa using g0
      rw [if_neg hne, if_pos rfl]
    | black =>
      rw [ht] at g0
      have he : flagsOf (fieldsOf P n) &&& FWhiteTurn = 0 := by
        have hbw : (Spec.Color.black == Spec.Color.white) = false := rfl
        rw [hbw] at g0
        simpa using g0
      rw [if_pos he, if_neg (by decide)]

/-! ### uniqueness, and necessity of the range of the full-move number -/

/-- everything but the full-move number -/
def fenPrefix (P : Spec.Pos) : Bytes :=
  Spec.joinBytes 47 (rankRows P) ++ [32] ++ turnBytes P ++ [32] ++ Spec.castleBytes P ++ [32] ++
    Spec.epBytes P ++ [32, 48, 32]

theorem toFenBytes_prefix (P : Spec.Pos) (n : Nat) : Spec.toFenBytes P n = fenPrefix P ++ Spec.natDigits n := rfl

theorem natDigits_inj {n m : Nat} (h : Spec.natDigits n = Spec.natDigits m) : n = m := by
  rw [← (natDigits_spec n).2.2, ← (natDigits_spec m).2.2, h]

/-- the written text determines the legal position and the full-move number -/
theorem toFenBytes_inj {P Q : Spec.Pos} {n m : Nat} (hP : Spec.Legal P = true) (hQ : Spec.Legal Q = true)
    (h : Spec.toFenBytes P n = Spec.toFenBytes Q m) : P = Q ∧ n = m := by
  have s1 := (split_fields (legalFacts hP) n).1
  have s2 := (split_fields (legalFacts hQ) m).1
  rw [h, s2] at s1
  have hd : Spec.natDigits m = Spec.natDigits n := by
    have := congrArg (fun l => l.getD 5 []) s1
    exact this
  have hnm := (natDigits_inj hd).symm
  subst hnm
  refine ⟨?_, rfl⟩
  rw [toFenBytes_prefix, toFenBytes_prefix] at h
  have hpre := List.append_cancel_right h
  have h1 : Spec.toFenBytes P 1 = Spec.toFenBytes Q 1 := by rw [toFenBytes_prefix, toFenBytes_prefix, hpre]
  obtain ⟨p, hp, hpa, _⟩ := roundtrip hP (Nat.le_refl 1) (by decide)
  obtain ⟨q, hq, hqa, _⟩ := roundtrip hQ (Nat.le_refl 1) (by decide)
  rw [h1, hq] at hp
  have : q = p := Except.ok.inj (Except.ok.inj hp)
  rw [← hpa, ← hqa, this]

/-- the range condition on the full-move number is necessary: outside `1 … maxFullMoveCounter` the written
    text is not accepted -/
theorem range_necessary {P : Spec.Pos} {n : Nat} (hLegal : Spec.Legal P = true)
    (hn : n < 1 ∨ Gen.maxFullMoveCounter < n) : ∀ p, parseFen (Spec.toFenBytes P n) ≠ .ok (.ok p) := by
  intro p hp
  obtain ⟨_, f0, f1, f2, f3, f4, f5, hsp, _, _, _, _, _, _, _, _, _, _, _, k, hk, hk1, hk2, _⟩ := faithful_of_spec _ p hp
  rw [(split_fields (legalFacts hLegal) n).1] at hsp
  simp only [fieldsOf, List.cons.injEq, and_true] at hsp
  obtain ⟨_, _, _, _, _, rfl⟩ := hsp
  by_cases hbig : n ≤ 9223372036854775807
  · rw [atoi_natDigits n hbig] at hk
    have : (n : Int) = k := Option.some.inj hk
    have hk2' : k ≤ 9999 := by simpa [Gen.maxFullMoveCounter] using hk2
    simp only [Gen.maxFullMoveCounter] at hn
    omega
  · rw [atoi_natDigits_big n (by omega)] at hk
    cases hk

end Magog.FenWrite
