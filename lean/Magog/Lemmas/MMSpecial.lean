import Magog.Lemmas.MMSimple
import Magog.Lemmas.InvFen

/-! `makeMove` on the two compound moves: castling (king move + rook move) and the en-passant capture
    (pawn move + removal of the passed pawn). -/

namespace Magog.MM
open Magog Magog.Model Magog.Atk Magog.Geo Magog.Count

theorem upd2_set' {B : Array Nat} {frm to v' : Nat} (hsz : B.size = 128) (hf : frm < 128) (ht : to < 128)
    (hne : frm ≠ to) : Upd2 B ((B.setIfInBounds frm 0).setIfInBounds to v') frm to v' := by
  rw [Array.setIfInBounds_comm _ _ hne]
  exact upd2_set hsz hf ht

theorem not_man_zero (w : Bool) : ¬ Man w 0 := fun h => man_ne_zero h rfl

theorem rook_code (w : Bool) : Rook ||| colorBit w = rookOf w := by cases w <;> decide

theorem rookOf_not_pawn (w : Bool) : ¬ (rookOf w = Gen.WPawn ∨ rookOf w = Gen.BPawn) := by cases w <;> decide
theorem kingOf_not_pawn (w : Bool) : ¬ (kingOf w = Gen.WPawn ∨ kingOf w = Gen.BPawn) := by cases w <;> decide
theorem kingOf_ne_rookOf (w c : Bool) : kingOf w ≠ rookOf c := by cases w <;> cases c <;> decide
theorem pawnOf_ne_rookOf (w c : Bool) : pawnOf w ≠ rookOf c := by cases w <;> cases c <;> decide
theorem rookOf_ne_zero (w : Bool) : rookOf w ≠ 0 := by cases w <;> decide
theorem rookOf_ne_not (w : Bool) : rookOf w ≠ rookOf (!w) := by cases w <;> decide

/-! ### castling -/

/-- Castling, given the evaluated first stage: the king on `m.frm` goes to the empty `m.to`, the rook
    on `rf` to the empty `rt`. -/
theorem castle_result {p : Position} {w : Bool} {m : Move} {rf rt : Nat} (hI : Inv p) (hw : whiteTurn p = w)
    (hfrm : m.frm ∈ sq88) (hto : m.to ∈ sq88) (hrf : rf ∈ sq88) (hrt : rt ∈ sq88)
    (hk : p.board[m.frm]? = some (kingOf w)) (hr : p.board[rf]? = some (rookOf w))
    (h0 : p.board[rt]? = some 0) (h0' : p.board[m.to]? = some 0) (hne : m.to ≠ rt)
    (hpromo : m.promo = 0) (hmep : m.ep = InvalidSq)
    (h1 : mmMover p.board p.flags (p.side w) m (colorBit w) (homeRank w) (flagK w) (flagQ w) =
      .ok ((p.board.setIfInBounds rf 0).setIfInBounds rt (rookOf w),
        clearBits p.flags (flagK w ||| flagQ w),
        { (p.side w) with king := m.to, pieces := replaceFirst (p.side w).pieces rf rt })) :
    ∃ p' b, makeMove p m = .ok (p', b) ∧ Inv p' ∧ (b = true ↔ OppSafe p') := by
  have hB := hI.boardInv
  have hcur := hI.sideInv w
  have hen := hI.sideInv (!w)
  obtain ⟨hf1, _⟩ := mem_sq88.mp hfrm
  obtain ⟨ht1, _⟩ := mem_sq88.mp hto
  obtain ⟨hrf1, _⟩ := mem_sq88.mp hrf
  obtain ⟨hrt1, _⟩ := mem_sq88.mp hrt
  -- distinctness
  have n1 : m.frm ≠ rf := fun e => by rw [e, hr] at hk; exact kingOf_ne_rookOf w w (Option.some.inj hk).symm
  have n2 : m.frm ≠ rt := fun e => by rw [e, h0] at hk; exact kingOf_ne_zero w (Option.some.inj hk).symm
  have n3 : m.frm ≠ m.to := fun e => by rw [e, h0'] at hk; exact kingOf_ne_zero w (Option.some.inj hk).symm
  have n4 : rf ≠ rt := fun e => by rw [e, h0] at hr; exact rookOf_ne_zero w (Option.some.inj hr).symm
  have n5 : rf ≠ m.to := fun e => by rw [e, h0'] at hr; exact rookOf_ne_zero w (Option.some.inj hr).symm
  -- step A: the rook
  have hUA := upd2_set' (v' := rookOf w) hB.ok.size hrf1 hrt1 n4
  have hcurA := sideInv_upd2 hcur hrt n4 hUA (listSpec_officer hcur hrf hr (rookOf_mem w) h0 (not_man_zero w))
  have henA := sideInv_upd2 hen hrt n4 hUA (listSpec_quiet hen hr (rookOf_man w) h0 (rookOf_man w))
  have hBA := boardInv_upd2 hB hrf hrt hUA (man_mem_codes (rookOf_man w)) (fun h => absurd h (rookOf_not_pawn w))
  have hk1 : ((p.board.setIfInBounds rf 0).setIfInBounds rt (rookOf w))[m.frm]? = some (kingOf w) := by
    rw [hUA.2, if_neg n1, if_neg n2]; exact hk
  have h01 : ((p.board.setIfInBounds rf 0).setIfInBounds rt (rookOf w))[m.to]? = some 0 := by
    rw [hUA.2, if_neg (fun e => n5 e.symm), if_neg hne]; exact h0'
  -- step B: the king
  have h2 : mmCapture ((p.board.setIfInBounds rf 0).setIfInBounds rt (rookOf w)) (p.side (!w)) m (colorBit (!w))
      = .ok (p.side (!w)) := by
    simp only [mmCapture, bget_eq, h01, ok_bind, bne_self_eq_false, Bool.false_eq_true, if_false, pure_eq_ok]
  have h3 := board_plain (en := p.side (!w)) (ep := p.ep) (cc := colorBit w) hBA.ok.size hf1 ht1 hpromo hk1
    (by rintro ⟨_, e⟩; rw [pawn_code] at e; exact pawnOf_ne_kingOf w w e.symm)
  have hUB := upd2_set (v' := kingOf w) hBA.ok.size hf1 ht1
  have hcurB := sideInv_upd2 hcurA hto n3 hUB (listSpec_king hcurA hfrm hk1 h01 (not_man_zero w))
  have henB := sideInv_upd2 henA hto n3 hUB (listSpec_quiet henA hk1 (kingOf_man w) h01 (kingOf_man w))
  have hBB := boardInv_upd2 hBA hfrm hto hUB (man_mem_codes (kingOf_man w)) (fun h => absurd h (kingOf_not_pawn w))
  refine finish (km := true) hI hw (by rw [if_pos rfl]; exact h1) h2 h3 hBB hcurB henB ?_ (.inl hmep)
  have hold := (castlingConsistent_iff hB.ok.size).mp hI.castling
  refine castlingOk_step hI.flags hold hf1 ht1 [m.frm, m.to, rf, rt] (fun s hs' => ?_) (fun _ _ _ => rfl)
    (fun _ _ _ => .inr rfl) (fun s hs' hk' => ?_) (fun s hs' hr' => ?_)
  · simp only [List.mem_cons, List.not_mem_nil, or_false, not_or] at hs'
    rw [hUB.2 s, if_neg hs'.1, if_neg hs'.2.1, hUA.2 s, if_neg hs'.2.2.1, if_neg hs'.2.2.2]
  · simp only [List.mem_cons, List.not_mem_nil, or_false] at hs'
    rcases hs' with rfl | rfl | rfl | rfl
    · rw [hk] at hk'; exact kingOf_ne_not w (Option.some.inj hk')
    · rw [h0'] at hk'; exact kingOf_ne_zero (!w) (Option.some.inj hk').symm
    · rw [hr] at hk'; exact kingOf_ne_rookOf (!w) w (Option.some.inj hk').symm
    · rw [h0] at hk'; exact kingOf_ne_zero (!w) (Option.some.inj hk').symm
  · simp only [List.mem_cons, List.not_mem_nil, or_false] at hs'
    rcases hs' with rfl | rfl | rfl | rfl
    · rw [hk] at hr'; exact absurd (Option.some.inj hr') (kingOf_ne_rookOf w (!w))
    · rfl
    · rw [hr] at hr'; exact absurd (Option.some.inj hr') (rookOf_ne_not w)
    · rw [h0] at hr'; exact absurd (Option.some.inj hr').symm (rookOf_ne_zero (!w))

def kingToK (w : Bool) : Nat := if w then Gen.G1 else Gen.G8
def kingToQ (w : Bool) : Nat := if w then Gen.C1 else Gen.C8
def rookToK (w : Bool) : Nat := if w then Gen.F1 else Gen.F8
def rookToQ (w : Bool) : Nat := if w then Gen.D1 else Gen.D8
def knightQ (w : Bool) : Nat := if w then Gen.B1 else Gen.B8

/-- the first stage on the king-side castling move -/
theorem mover_castleK {B : Array Nat} {flags : Nat} {cur : Side} {w : Bool} {e : Nat} (hsz : B.size = 128)
    (hk : B[kingHome w]? = some (kingOf w)) (hck : cur.king = kingHome w) :
    mmMover B flags cur ⟨kingHome w, kingToK w, 0, e⟩ (colorBit w) (homeRank w) (flagK w) (flagQ w) =
      .ok ((B.setIfInBounds (rookHomeK w) 0).setIfInBounds (rookToK w) (rookOf w),
        clearBits flags (flagK w ||| flagQ w),
        { cur with king := kingToK w, pieces := replaceFirst cur.pieces (rookHomeK w) (rookToK w) }) := by
  have e1 : (kingOf w == pawnOf w) = false := by cases w <;> decide
  have e2 : (kingHome w == cur.king) = true := by simp [hck]
  have e3 : (fileOf (kingHome w) == Gen.E) = true := by cases w <;> decide
  have e4 : (fileOf (kingToK w) == Gen.C) = false := by cases w <;> decide
  have e5 : (fileOf (kingToK w) == Gen.G) = true := by cases w <;> decide
  have e6 : (Gen.H + homeRank w) % 256 = rookHomeK w := by cases w <;> decide
  have e7 : (Gen.F + homeRank w) % 256 = rookToK w := by cases w <;> decide
  have e8 : rookHomeK w < 128 := by cases w <;> decide
  have e9 : rookToK w < 128 := by cases w <;> decide
  simp only [mmMover, bget_eq, hk, ok_bind, pawn_code, e1, e2, e3, e4, e5, e6, e7, Bool.false_eq_true, if_false,
    if_true, bset, hsz, e8, e9, Array.size_setIfInBounds, pure_eq_ok, rook_code]

/-- the first stage on the queen-side castling move -/
theorem mover_castleQ {B : Array Nat} {flags : Nat} {cur : Side} {w : Bool} {e : Nat} (hsz : B.size = 128)
    (hk : B[kingHome w]? = some (kingOf w)) (hck : cur.king = kingHome w) :
    mmMover B flags cur ⟨kingHome w, kingToQ w, 0, e⟩ (colorBit w) (homeRank w) (flagK w) (flagQ w) =
      .ok ((B.setIfInBounds (rookHomeQ w) 0).setIfInBounds (rookToQ w) (rookOf w),
        clearBits flags (flagK w ||| flagQ w),
        { cur with king := kingToQ w, pieces := replaceFirst cur.pieces (rookHomeQ w) (rookToQ w) }) := by
  have e1 : (kingOf w == pawnOf w) = false := by cases w <;> decide
  have e2 : (kingHome w == cur.king) = true := by simp [hck]
  have e3 : (fileOf (kingHome w) == Gen.E) = true := by cases w <;> decide
  have e4 : (fileOf (kingToQ w) == Gen.C) = true := by cases w <;> decide
  have e6 : (Gen.A + homeRank w) % 256 = rookHomeQ w := by cases w <;> decide
  have e7 : (Gen.D + homeRank w) % 256 = rookToQ w := by cases w <;> decide
  have e8 : rookHomeQ w < 128 := by cases w <;> decide
  have e9 : rookToQ w < 128 := by cases w <;> decide
  simp only [mmMover, bget_eq, hk, ok_bind, pawn_code, e1, e2, e3, e4, e6, e7, Bool.false_eq_true, if_false,
    if_true, bset, hsz, e8, e9, Array.size_setIfInBounds, pure_eq_ok, rook_code]

theorem castle_squares (w : Bool) :
    kingHome w ∈ sq88 ∧ kingToK w ∈ sq88 ∧ kingToQ w ∈ sq88 ∧ rookHomeK w ∈ sq88 ∧ rookHomeQ w ∈ sq88 ∧
    rookToK w ∈ sq88 ∧ rookToQ w ∈ sq88 ∧ kingToK w ≠ rookToK w ∧ kingToQ w ≠ rookToQ w := by
  cases w <;> decide

/-- king-side castling with the right set and the two squares between empty -/
theorem castleK_result {p : Position} {w : Bool} {e : Nat} (hI : Inv p) (hw : whiteTurn p = w)
    (hflag : p.flags &&& flagK w ≠ 0) (h1 : p.board[rookToK w]? = some 0) (h2 : p.board[kingToK w]? = some 0)
    (he : e = InvalidSq) :
    ∃ p' b, makeMove p ⟨kingHome w, kingToK w, 0, e⟩ = .ok (p', b) ∧ Inv p' ∧ (b = true ↔ OppSafe p') := by
  have hold := (castlingConsistent_iff hI.board.size).mp hI.castling
  obtain ⟨hk, hr⟩ := (hold w).1 hflag
  obtain ⟨s1, s2, _, s4, _, s6, _, s8, _⟩ := castle_squares w
  have hck : (p.side w).king = kingHome w := ((hI.sideInv w).ok.mem_of_man s1 hk).2.2 rfl |>.symm
  exact castle_result (m := ⟨kingHome w, kingToK w, 0, e⟩) hI hw s1 s2 s4 s6 hk hr h1 h2 s8 rfl he
    (mover_castleK hI.board.size hk hck)

/-- queen-side castling with the right set and the squares between empty -/
theorem castleQ_result {p : Position} {w : Bool} {e : Nat} (hI : Inv p) (hw : whiteTurn p = w)
    (hflag : p.flags &&& flagQ w ≠ 0) (h1 : p.board[rookToQ w]? = some 0) (h2 : p.board[kingToQ w]? = some 0)
    (he : e = InvalidSq) :
    ∃ p' b, makeMove p ⟨kingHome w, kingToQ w, 0, e⟩ = .ok (p', b) ∧ Inv p' ∧ (b = true ↔ OppSafe p') := by
  have hold := (castlingConsistent_iff hI.board.size).mp hI.castling
  obtain ⟨hk, hr⟩ := (hold w).2 hflag
  obtain ⟨s1, _, s3, _, s5, _, s7, _, s9⟩ := castle_squares w
  have hck : (p.side w).king = kingHome w := ((hI.sideInv w).ok.mem_of_man s1 hk).2.2 rfl |>.symm
  exact castle_result (m := ⟨kingHome w, kingToQ w, 0, e⟩) hI hw s1 s3 s5 s7 hk hr h1 h2 s9 rfl he
    (mover_castleQ hI.board.size hk hck)


/-! ### en-passant capture -/

/-- the square of the pawn an en-passant capture removes -/
def epVictim (p : Position) (w : Bool) : Nat := if w then p.ep - Gen.UnitRank else p.ep + Gen.UnitRank

theorem epOk_facts {p : Position} {w : Bool} (hw : whiteTurn p = w) (h : FenSpec.EpOk p) :
    p.ep < 128 ∧ isValid p.ep = true ∧ p.board[p.ep]? = some 0 ∧ rankOf p.ep ≠ Gen.Rank1 ∧ rankOf p.ep ≠ Gen.Rank8 ∧
      p.board[epVictim p w]? = some (pawnOf (!w)) := by
  obtain ⟨h1, h2, h3, h4⟩ := h
  rw [hw] at h4
  cases w
  · simp only [Bool.false_eq_true, if_false] at h4
    refine ⟨h1, h2, h3, ?_, ?_, h4.2.1⟩ <;> rw [h4.1] <;> decide
  · simp only [if_true] at h4
    refine ⟨h1, h2, h3, ?_, ?_, h4.2.1⟩ <;> rw [h4.1] <;> decide

theorem ep_result {p : Position} {w : Bool} {m : Move} (hI : Inv p) (hw : whiteTurn p = w)
    (hf : m.frm ∈ (p.side w).pawns) (hto : m.to = p.ep) (hepok : FenSpec.EpOk p)
    (hkill : (fileOf m.to + rankOf m.frm) % 256 = epVictim p w)
    (hpromo : m.promo = 0) (hmep : m.ep = InvalidSq) :
    ∃ p' b, makeMove p m = .ok (p', b) ∧ Inv p' ∧ (b = true ↔ OppSafe p') := by
  have hB := hI.boardInv
  have hcur := hI.sideInv w
  have hen := hI.sideInv (!w)
  obtain ⟨e1, e2, e3, e4, e5, e6⟩ := epOk_facts hw hepok
  rw [← hto] at e1 e2 e3 e4 e5
  have hto88 : m.to ∈ sq88 := mem_sq88.mpr ⟨e1, e2⟩
  obtain ⟨hfrm, hv⟩ := hcur.ok.pawn_cell hf
  obtain ⟨hf1, _⟩ := mem_sq88.mp hfrm
  -- the victim square
  have hK : epVictim p w ∈ sq88 := by
    have := InvFen.valid_of_ne_zero hB.ok.size hB.offBoard e6 (pawnOf_ne_zero _)
    exact mem_sq88.mpr this
  obtain ⟨hK1, _⟩ := mem_sq88.mp hK
  have nKf : epVictim p w ≠ m.frm := fun e => by
    rw [e, hv] at e6; exact pawnOf_ne_not w (Option.some.inj e6)
  have nKt : epVictim p w ≠ m.to := fun e => by
    rw [e, e3] at e6; exact pawnOf_ne_zero _ (Option.some.inj e6).symm
  have hman : Man w (pawnOf w) := .inl rfl
  have hd := pawnOf_ne_kingOf w w
  -- the pawn move
  obtain ⟨cur', h1, hspec1⟩ := mover_simple (flags := p.flags) hcur hfrm hv hman e3 (not_man_zero w)
    (fun _ => .inl hpromo) (fun _ => hpromo) (fun e => absurd e hd)
  rw [if_pos hpromo] at hspec1
  rw [if_neg hd] at h1
  obtain ⟨en', h2, hspec2⟩ := victim_simple (v' := pawnOf w) hen hto88 hv hman e3 (.inl rfl) hman
  have hne : m.frm ≠ m.to := fun e => by rw [e, e3] at hv; exact pawnOf_ne_zero _ (Option.some.inj hv).symm
  have hU := upd2_set (v' := pawnOf w) hB.ok.size hf1 e1
  have hcur1 := sideInv_upd2 hcur hto88 hne hU hspec1
  have hen1 := sideInv_upd2 hen hto88 hne hU hspec2
  have hB1 := boardInv_upd2 hB hfrm hto88 hU (man_mem_codes hman) (fun _ => ⟨e4, e5⟩)
  have hK1c : ((p.board.setIfInBounds m.to (pawnOf w)).setIfInBounds m.frm 0)[epVictim p w]? = some (pawnOf (!w)) := by
    rw [hU.2, if_neg nKf, if_neg nKt]; exact e6
  -- the removal
  have hKmem : epVictim p w ∈ en'.pawns := (hen1.ok.mem_of_man hK hK1c).1 rfl
  obtain ⟨l', hk, hm, hnd, hlen⟩ := kill_spec "enemyPawns(ep)" hKmem hen1.ndPawns
  have hsz1 : ((p.board.setIfInBounds m.to (pawnOf w)).setIfInBounds m.frm 0).size = 128 := hB1.ok.size
  have h3 : mmBoard p.board en' m p.ep (colorBit w) =
      .ok ((((p.board.setIfInBounds m.to (pawnOf w)).setIfInBounds m.frm 0).setIfInBounds (epVictim p w) 0),
        { en' with pawns := l' }) := by
    have c1 : (p.ep == m.to) = true := by simp [hto]
    rw [Array.setIfInBounds_comm _ _ (fun e => nKf e.symm)]
    simp only [mmBoard, hpromo, beq_self_eq_true, if_true, bget_eq, hv, ok_bind, bset, hB.ok.size, e1, hf1, hK1,
      Array.size_setIfInBounds, pure_eq_ok, pawn_code, c1, Bool.and_true, hkill, hk]
  have hK1s : epVictim p w < ((p.board.setIfInBounds m.to (pawnOf w)).setIfInBounds m.frm 0).size := by
    rw [hsz1]; exact hK1
  -- invariants after the removal
  have hnotK : ¬ Man w (pawnOf (!w)) := fun h => man_not_other h (.inl rfl)
  obtain ⟨kp, kq, kk⟩ := hcur1.ok.not_mem_of_not_man hK1c hnotK
  have hcur2 : SideInv (((p.board.setIfInBounds m.to (pawnOf w)).setIfInBounds m.frm 0).setIfInBounds (epVictim p w) 0)
      cur' w :=
    ⟨sideOk_clear hcur1.ok hK1s (fun s => ⟨fun h => ⟨fun e => kp (e ▸ h), h⟩, fun h => h.2⟩)
        (fun s => ⟨fun h => ⟨fun e => kq (e ▸ h), h⟩, fun h => h.2⟩) rfl (fun e => kk e.symm),
      hcur1.ndPawns, hcur1.ndPieces, hcur1.lenPawns, hcur1.len⟩
  have kq' : epVictim p w ∉ en'.pieces := fun h => by
    obtain ⟨o, ho, e⟩ := (hen1.ok.piece_cell h).2
    rw [hK1c] at e; exact pawnOf_not_officer _ _ ((Option.some.inj e) ▸ ho)
  have kk' : en'.king ≠ epVictim p w := fun h => by
    have e := hen1.ok.king_cell.2
    rw [h, hK1c] at e; exact pawnOf_ne_kingOf _ _ (Option.some.inj e)
  have hen2 : SideInv (((p.board.setIfInBounds m.to (pawnOf w)).setIfInBounds m.frm 0).setIfInBounds (epVictim p w) 0)
      { en' with pawns := l' } (!w) :=
    ⟨sideOk_clear hen1.ok hK1s (fun s => by rw [hm s]; exact ⟨fun h => ⟨h.2, h.1⟩, fun h => ⟨h.2, h.1⟩⟩)
        (fun s => ⟨fun h => ⟨fun e => kq' (e ▸ h), h⟩, fun h => h.2⟩) rfl kk',
      hnd, hen1.ndPieces, by have := hen1.lenPawns; dsimp only; omega, by have := hen1.len; dsimp only; omega⟩
  have hB2 := boardInv_clear hB1 hK
  refine finish (km := false) hI hw (by simpa using h1) h2 h3 hB2 hcur2 hen2 ?_ (.inl hmep)
  have hold := (castlingConsistent_iff hB.ok.size).mp hI.castling
  refine castlingOk_step hI.flags hold hf1 e1 [m.frm, m.to, epVictim p w] (fun s hs' => ?_) (fun s hs' hk' => ?_)
    (fun s hs' hr' => ?_) (fun s hs' hk' => ?_) (fun s hs' hr' => ?_)
  · simp only [List.mem_cons, List.not_mem_nil, or_false, not_or] at hs'
    rw [getElem?_clear hK1s, if_neg hs'.2.2, hU.2 s, if_neg hs'.1, if_neg hs'.2.1]
  · simp only [List.mem_cons, List.not_mem_nil, or_false] at hs'
    rcases hs' with rfl | rfl | rfl
    · rw [hv] at hk'; exact absurd (Option.some.inj hk') hd
    · rw [e3] at hk'; exact absurd (Option.some.inj hk').symm (kingOf_ne_zero w)
    · rw [e6] at hk'; exact absurd (Option.some.inj hk') (pawnOf_ne_kingOf _ _)
  · simp only [List.mem_cons, List.not_mem_nil, or_false] at hs'
    rcases hs' with rfl | rfl | rfl
    · exact .inl rfl
    · rw [e3] at hr'; exact absurd (Option.some.inj hr').symm (rookOf_ne_zero w)
    · rw [e6] at hr'; exact absurd (Option.some.inj hr') (pawnOf_ne_rookOf _ _)
  · simp only [List.mem_cons, List.not_mem_nil, or_false] at hs'
    rcases hs' with rfl | rfl | rfl
    · rw [hv] at hk'; exact pawnOf_ne_kingOf _ _ (Option.some.inj hk')
    · rw [e3] at hk'; exact kingOf_ne_zero _ (Option.some.inj hk').symm
    · rw [e6] at hk'; exact pawnOf_ne_kingOf _ _ (Option.some.inj hk')
  · simp only [List.mem_cons, List.not_mem_nil, or_false] at hs'
    rcases hs' with rfl | rfl | rfl
    · rw [hv] at hr'; exact absurd (Option.some.inj hr') (pawnOf_ne_rookOf _ _)
    · rfl
    · rw [e6] at hr'; exact absurd (Option.some.inj hr') (pawnOf_ne_rookOf _ _)

end Magog.MM
