import Magog.Model.Uci
import Magog.Lemmas.Fen

/-! Property C17: the command interpreter `Model.uciStep` never panics — definitions (`OpsTotal`, `StateOk`,
    `MovesLegal`, `Pre`, `SessionPre`) and the lemmas behind `Props/C17.lean`. -/

namespace Magog.UciTotal
open Magog Magog.Model

/-! ### the monad -/

deriving instance DecidableEq for Except

@[simp] theorem ok_bind {α β} (a : α) (f : α → M β) : (Except.ok a >>= f) = f a := rfl
@[simp] theorem pure_bind' {α β} (a : α) (f : α → M β) : ((pure a : M α) >>= f) = f a := rfl
theorem pure_eq_ok {α} (a : α) : (pure a : M α) = .ok a := rfl

/-! ### `doGo`'s token scanner and the deadline arithmetic never panic -/

theorem goDiv_total (a b : Int) (hb : b ≠ 0) : ∃ v, goDiv a b = .ok v := by
  unfold goDiv
  have : (b == 0) = false := by simpa using hb
  simp only [this]
  exact ⟨_, rfl⟩

theorem allot_total (black : Bool) (bl bi wl wi m : Int) (hm : m ≠ 0) : ∃ v, allot black bl bi wl wi m = .ok v := by
  unfold allot
  obtain ⟨q, hq⟩ := goDiv_total (if black then bl else wl) m hm
  simp only [hq]
  split <;> split <;> exact ⟨_, rfl⟩

theorem goFinish_total (black : Bool) (a : GoAcc) (hm : a.movesToGo ≠ 0) : ∃ g, goFinish black a = .ok g := by
  unfold goFinish
  split
  · exact ⟨_, rfl⟩
  · obtain ⟨v, hv⟩ := allot_total black a.blackLeft a.blackInc a.whiteLeft a.whiteInc a.movesToGo hm
    rw [hv]
    exact ⟨_, rfl⟩

/-- the scanner returns normally for every token list, and the divisor `movesToGo` it hands to
    `calcEndtime` is never zero (a `movestogo` value below 1 is rejected) -/
theorem goScan_total (toks : List Bytes) : ∀ a : GoAcc, a.movesToGo ≠ 0 →
    ∃ r, goScan toks a = .ok r ∧ ∀ a', r = .done a' → a'.movesToGo ≠ 0 := by
  induction toks with
  | nil =>
    intro a ha
    exact ⟨.done a, rfl, fun a' h => by cases h; exact ha⟩
  | cons tok rest ih =>
    intro a ha
    have rej : ∃ r, (pure GoScan.reject : M GoScan) = .ok r ∧ ∀ a', r = .done a' → a'.movesToGo ≠ 0 :=
      ⟨.reject, rfl, fun a' h => by cases h⟩
    show ∃ r, goScan (tok :: rest) a = .ok r ∧ ∀ a', r = .done a' → a'.movesToGo ≠ 0
    · unfold goScan
      rcases rest with _ | ⟨nxt, tl⟩ <;>
      ( simp only [pure_bind']
        split
        · split
          · exact rej
          · exact ⟨_, rfl, fun a' h => by cases h; exact ha⟩
        split
        · exact ⟨_, rfl, fun a' h => by cases h; exact ha⟩
        split
        · split
          · exact rej
          · exact ih _ ha
        split
        · split
          · exact rej
          · exact ih _ ha
        split
        · split
          · exact rej
          · exact ih _ ha
        split
        · split
          · exact rej
          · exact ih _ ha
        split
        · split
          · exact rej
          · split
            · exact rej
            · next hv => exact ih _ (by dsimp only; omega)
        split
        · split
          · exact rej
          · split
            · exact rej
            · exact ih _ ha
        · exact ih _ ha )

theorem defaultAcc_movesToGo : ({} : GoAcc).movesToGo ≠ 0 := by
  show ((Gen.ExpectedFullMovesToBePlayed : Nat) : Int) ≠ 0
  decide

/-- `doGo`'s parsing and deadline selection return normally on EVERY token list -/
theorem goTokens_total (black : Bool) (tokens : List Bytes) : ∃ r, goTokens black tokens = .ok r := by
  unfold goTokens
  obtain ⟨r, hr, hm⟩ := goScan_total tokens {} defaultAcc_movesToGo
  rw [hr]
  cases r with
  | reject => exact ⟨none, rfl⟩
  | done a =>
    obtain ⟨g, hg⟩ := goFinish_total black a (hm a rfl)
    simp only [ok_bind, hg]
    exact ⟨_, rfl⟩

theorem goParams_total (black : Bool) (cmd : Bytes) : ∃ r, goParams black cmd = .ok r :=
  goTokens_total black _

/-! ### string helpers: the slice bounds of `doPosition` always hold -/

theorem isPrefixOf_length {pat s : Bytes} (h : pat.isPrefixOf s = true) : pat.length ≤ s.length :=
  (List.isPrefixOf_iff_prefix.1 h).length_le

/-- `strings.Index` returns an index at which the pattern fits -/
theorem indexOf_bound (pat : Bytes) : ∀ (s : Bytes) (i : Nat), indexOf pat s = some i → i + pat.length ≤ s.length := by
  intro s
  induction s with
  | nil =>
    intro i h
    unfold indexOf at h
    split at h
    · next he =>
      cases h
      have : pat = [] := by simpa using he
      simp [this]
    · cases h
  | cons c cs ih =>
    intro i h
    unfold indexOf at h
    split at h
    · next hp =>
      cases h
      have := isPrefixOf_length hp
      omega
    · cases hj : indexOf pat cs with
      | none => rw [hj] at h; cases h
      | some j =>
        rw [hj] at h
        simp only [Option.map_some, Option.some.injEq] at h
        have := ih j hj
        simp only [List.length_cons]
        omega

theorem sliceTo_total {s : Bytes} {hi : Nat} (h : hi ≤ s.length) : sliceTo s hi = .ok (s.take hi) := by
  simp [sliceTo, h, pure_eq_ok]

theorem sliceFrom_total {s : Bytes} {lo : Nat} (h : lo ≤ s.length) : sliceFrom s lo = .ok (s.drop lo) := by
  simp [sliceFrom, h, pure_eq_ok]

theorem idx_total {α} (what : String) (l : List α) (i : Nat) (h : i < l.length) : idx what l i = .ok l[i] := by
  simp [idx, h, pure_eq_ok]

/-! ### hypotheses of the theorem -/

/-- The engine operations return normally on positions satisfying `G` (hypotheses discharged by the other
    properties: C08 for `fen`, C02 / C18 for the rest): evaluation; `perft` / `tperft` for every depth the
    interpreter lets through (`0 < d < plyBufferCapacity`); `ApplyUciMove` on a `Legal` move, which also keeps
    `G`; the start position and everything the FEN loader accepts satisfy `G`. -/
structure OpsTotal (ops : EngineOps) (G : Position → Prop) (Legal : Position → Move → Prop) : Prop where
  start : G ops.startPos
  fen : ∀ s p, parseFen s = .ok (.ok p) → G p
  eval : ∀ p, G p → ∃ v, ops.evalOp p = .ok v
  perft : ∀ p d, G p → 0 < d → d < Gen.plyBufferCapacity → ∃ r, ops.perftDivOp p d = .ok r
  tperft : ∀ p d, G p → 0 < d → d < Gen.plyBufferCapacity → ∃ r, ops.tperftDivOp p d = .ok r
  apply : ∀ p mv, G p → Legal p mv → ∃ p', ops.applyMove p mv = .ok p' ∧ G p'

/-- the formalisation of legality "through the model": the move applies without panic and keeps `G` -/
def LegalByApply (ops : EngineOps) (G : Position → Prop) (p : Position) (mv : Move) : Prop :=
  ∃ p', ops.applyMove p mv = .ok p' ∧ G p'

/-- the state invariant: the current position (if any) satisfies `G`; the option `currmoveLogInterval`
    (a divisor in the search) is non-zero and inside its declared range -/
def StateOk (G : Position → Prop) (st : UciState) : Prop :=
  (∀ p, st.pos = some p → G p) ∧ st.logInterval ≠ 0 ∧
    (Gen.currmoveLogIntervalMin : Int) ≤ st.logInterval ∧ st.logInterval ≤ (Gen.currmoveLogIntervalMax : Int)

/-- the moves of a move list are legal, each at the position reached by the ones before it; the list is
    only read up to the first string that is not a move (there the command stops with a message) -/
def MovesLegal (ops : EngineOps) (Legal : Position → Move → Prop) : Position → List Bytes → Prop
  | _, [] => True
  | p, ms :: rest =>
    match parseMoveString ops.str.lower ms with
    | none => True
    | some mv => Legal p mv ∧ ∀ p', ops.applyMove p mv = .ok p' → MovesLegal ops Legal p' rest

/-- The UCI precondition on one line: IF the line is a `position` command whose position part is accepted
    and which carries a move list, THEN the listed moves are legal at their positions. Nothing else. -/
def Pre (ops : EngineOps) (Legal : Position → Move → Prop) (st : UciState) (line : Bytes) : Prop :=
  hasPrefix line Gen.uPosition_bytes = true →
  ∀ st' moveStrs, positionHead ops st (ops.str.trimSpace (trimPrefix line Gen.uPosition_bytes)) = .ok (.moves st' moveStrs) →
    ∀ p, st'.pos = some p → MovesLegal ops Legal p moveStrs

/-- the precondition along a session: every line satisfies `Pre` in the state it is received in -/
def SessionPre (ops : EngineOps) (Legal : Position → Move → Prop) : UciState → List Bytes → Prop
  | _, [] => True
  | st, l :: ls => Pre ops Legal st l ∧ ∀ st' out, uciStep ops st l = .ok (st', out) → SessionPre ops Legal st' ls

theorem pre_of_not_position {ops : EngineOps} {Legal : Position → Move → Prop} {st : UciState} {line : Bytes}
    (h : hasPrefix line Gen.uPosition_bytes = false) : Pre ops Legal st line := by
  intro h'; rw [h] at h'; cases h'

theorem stateOk_init (G : Position → Prop) : StateOk G UciState.init := by
  unfold StateOk
  refine ⟨fun p h => by simp [UciState.init] at h, ?_, ?_, ?_⟩ <;> simp only [UciState.init] <;> decide

/-! ### the pieces of the interpreter -/

/-- what every sub-command guarantees about its result: the position invariant and an untouched option -/
def Keeps (G : Position → Prop) (st st' : UciState) : Prop :=
  (∀ p, st'.pos = some p → G p) ∧ st'.logInterval = st.logInterval

theorem Keeps.stateOk {G : Position → Prop} {st st' : UciState} (h : StateOk G st) (k : Keeps G st st') : StateOk G st' := by
  obtain ⟨_, h2, h3, h4⟩ := h
  exact ⟨k.1, by rw [k.2]; exact h2, by rw [k.2]; exact h3, by rw [k.2]; exact h4⟩

theorem keeps_refl {G : Position → Prop} {st : UciState} (h : ∀ p, st.pos = some p → G p) : Keeps G st st := ⟨h, rfl⟩

theorem parsePosition_total {ops : EngineOps} {G : Position → Prop} {Legal : Position → Move → Prop}
    (ho : OpsTotal ops G Legal) (st : UciState) (hst : ∀ p, st.pos = some p → G p) (s : Bytes) :
    ∃ st' err, parsePosition ops st s = .ok (st', err) ∧ Keeps G st st' ∧
      (err = none → ∃ p, st'.pos = some p) ∧ (err ≠ none → st' = st) := by
  unfold parsePosition
  split
  · refine ⟨_, none, rfl, ⟨fun p h => ?_, rfl⟩, fun _ => ⟨_, rfl⟩, fun h => absurd rfl h⟩
    cases h; exact ho.start
  · generalize (if hasPrefix s (Gen.uFen_bytes ++ [32]) = true then ops.str.trimSpace (trimPrefix s Gen.uFen_bytes) else s) = fen
    obtain ⟨r, hr, _⟩ := FenLemmas.parseFen_spec fen
    dsimp only
    rw [hr]
    cases r with
    | error e => exact ⟨st, some e, rfl, keeps_refl hst, fun h => (by cases h), fun _ => rfl⟩
    | ok p =>
      refine ⟨_, none, rfl, ⟨fun q h => ?_, rfl⟩, fun _ => ⟨_, rfl⟩, fun h => absurd rfl h⟩
      cases h; exact ho.fen fen p hr

theorem applyMoves_total {ops : EngineOps} {G : Position → Prop} {Legal : Position → Move → Prop}
    (ho : OpsTotal ops G Legal) (l : List Bytes) : ∀ (st : UciState) (p : Position), st.pos = some p → G p →
      MovesLegal ops Legal p l → ∃ r, applyMoves ops st l = .ok r ∧ Keeps G st r.1 := by
  induction l with
  | nil =>
    intro st p hp hg _
    refine ⟨_, rfl, fun q h => ?_, rfl⟩
    have : st.pos = some q := h
    rw [hp] at this; cases this; exact hg
  | cons ms rest ih =>
    intro st p hp hg hl
    unfold applyMoves
    unfold MovesLegal at hl
    cases hm : parseMoveString ops.str.lower ms with
    | none =>
      refine ⟨_, rfl, fun q h => ?_, rfl⟩
      have : st.pos = some q := h
      rw [hp] at this; cases this; exact hg
    | some mv =>
      rw [hm] at hl
      obtain ⟨hleg, hrest⟩ := hl
      obtain ⟨p', hap, hg'⟩ := ho.apply p mv hg hleg
      simp only [hp, hap, ok_bind]
      obtain ⟨r, hr, hk⟩ := ih { st with pos := some p' } p' rfl hg' (hrest p' hap)
      exact ⟨r, hr, hk.1, hk.2⟩

theorem doPosition_total {ops : EngineOps} {G : Position → Prop} {Legal : Position → Move → Prop}
    (ho : OpsTotal ops G Legal) (st : UciState) (hst : ∀ p, st.pos = some p → G p) (cmd : Bytes)
    (hpre : ∀ st' moveStrs, positionHead ops st cmd = .ok (.moves st' moveStrs) →
      ∀ p, st'.pos = some p → MovesLegal ops Legal p moveStrs) :
    ∃ r, doPosition ops st cmd = .ok r ∧ Keeps G st r.1 := by
  unfold doPosition
  unfold positionHead at hpre ⊢
  cases hi : indexOf Gen.uMoves_bytes cmd with
  | none =>
    obtain ⟨st', err, hp, hk, _, _⟩ := parsePosition_total ho st hst cmd
    simp only [hp, ok_bind, pure_bind']
    exact ⟨_, rfl, hk.1, hk.2⟩
  | some i =>
    have hb := indexOf_bound _ _ _ hi
    rw [hi] at hpre
    simp only [sliceTo_total (show i ≤ cmd.length by omega), ok_bind] at hpre ⊢
    obtain ⟨st', err, hp, hk, hsome, hsame⟩ := parsePosition_total ho st hst (ops.str.trimSpace (cmd.take i))
    simp only [hp, ok_bind] at hpre ⊢
    cases err with
    | some e => exact ⟨_, rfl, hk.1, hk.2⟩
    | none =>
      simp only [sliceFrom_total hb, ok_bind, pure_bind'] at hpre ⊢
      obtain ⟨p, hp'⟩ := hsome rfl
      obtain ⟨r, hr, hk'⟩ := applyMoves_total ho _ st' p hp' (hk.1 p hp') (hpre _ _ rfl p hp')
      exact ⟨r, hr, hk'.1, hk'.2.trans hk.2⟩

theorem doGo_total {G : Position → Prop} (st : UciState) (hst : ∀ p, st.pos = some p → G p) (cmd : Bytes) :
    ∃ r, doGo st cmd = .ok r ∧ Keeps G st r.1 := by
  unfold doGo
  cases hp : st.pos with
  | none => exact ⟨_, rfl, hst, rfl⟩
  | some p =>
    obtain ⟨g, hg⟩ := goParams_total (!whiteTurn p) cmd
    simp only [hg, ok_bind]
    have hk : ∀ q, (some p : Option Position) = some q → G q := fun q h => hst q (by rw [hp]; exact h)
    cases g with
    | none => exact ⟨_, rfl, hk, rfl⟩
    | some g => exact ⟨_, rfl, hk, rfl⟩

theorem setOption_total {G : Position → Prop} (st : UciState) (hst : StateOk G st) (cmd : Bytes) :
    ∃ st', setOption st cmd = .ok st' ∧ StateOk G st' ∧ st'.pos = st.pos := by
  unfold setOption
  dsimp only
  split
  · exact ⟨st, rfl, hst, rfl⟩
  · next hlen =>
    have h4 : (splitOn 32 cmd).length = 4 := by simpa using hlen
    generalize splitOn 32 cmd = tokens at h4
    simp only [idx_total "tokens" tokens 0 (by omega), idx_total "tokens" tokens 1 (by omega),
      idx_total "tokens" tokens 2 (by omega), idx_total "tokens" tokens 3 (by omega), ok_bind, Magog.Model.orM]
    have hbad : ∃ b, (if (tokens[0] != Gen.uOptionName_bytes) = true then (pure true : M Bool)
        else pure (tokens[2] != Gen.uOptionValue_bytes)) = .ok b := by
      split <;> exact ⟨_, rfl⟩
    obtain ⟨b, hb⟩ := hbad
    simp only [hb, ok_bind]
    split
    · exact ⟨st, rfl, hst, rfl⟩
    split
    · split
      · exact ⟨st, rfl, hst, rfl⟩
      · next v _ =>
        split
        · next hv =>
          refine ⟨_, rfl, ⟨hst.1, ?_, ?_, ?_⟩, rfl⟩
          all_goals
            simp only [Bool.and_eq_true, decide_eq_true_eq, ge_iff_le] at hv
            simp only [Gen.currmoveLogIntervalMin, Gen.currmoveLogIntervalMax] at hv ⊢
            omega
        · exact ⟨st, rfl, hst, rfl⟩
    · exact ⟨st, rfl, hst, rfl⟩

theorem doPerft_total {ops : EngineOps} {G : Position → Prop} {Legal : Position → Move → Prop}
    (ho : OpsTotal ops G Legal) (tactical : Bool) (st : UciState) (hst : ∀ p, st.pos = some p → G p) (arg : Bytes) :
    ∃ out, doPerft tactical ops st arg = .ok (st, out) := by
  unfold doPerft
  split
  · exact ⟨_, rfl⟩
  · next d _ =>
    split
    · exact ⟨_, rfl⟩
    · next hd =>
      have hd' : 0 < d ∧ d < (Gen.plyBufferCapacity : Int) := by
        simp only [Bool.or_eq_true, decide_eq_true_eq, not_or, ge_iff_le] at hd
        omega
      cases hp : st.pos with
      | none => exact ⟨_, rfl⟩
      | some p =>
        have hg := hst p hp
        have h1 : 0 < d.toNat := by omega
        have h2 : d.toNat < Gen.plyBufferCapacity := by omega
        cases tactical with
        | true =>
          obtain ⟨r, hr⟩ := ho.tperft p d.toNat hg h1 h2
          simp only [hr, if_true, ok_bind]
          exact ⟨_, rfl⟩
        | false =>
          obtain ⟨r, hr⟩ := ho.perft p d.toNat hg h1 h2
          simp only [hr, Bool.false_eq_true, if_false, ok_bind]
          exact ⟨_, rfl⟩

/-! ### the dispatcher -/

/-- one line: no panic, and the state invariant is kept -/
theorem uciStep_total {ops : EngineOps} {G : Position → Prop} {Legal : Position → Move → Prop}
    (ho : OpsTotal ops G Legal) {st : UciState} (hst : StateOk G st) {line : Bytes} (hpre : Pre ops Legal st line) :
    ∃ st' out, uciStep ops st line = .ok (st', out) ∧ StateOk G st' := by
  have same : ∀ out, ∃ st' out', (Except.ok (st, out) : M (UciState × List UOut)) = .ok (st', out') ∧ StateOk G st' :=
    fun out => ⟨st, out, rfl, hst⟩
  rw [uciStep]
  by_cases c1 : (line == Gen.uIsReady_bytes) = true
  · rw [if_pos c1]; exact ⟨_, _, rfl, hst.1, hst.2⟩
  rw [if_neg c1]
  by_cases c2 : (line == kwEval) = true
  · rw [if_pos c2]
    cases hp : st.pos with
    | none => exact same _
    | some p =>
      obtain ⟨v, hv⟩ := ho.eval p (hst.1 p hp)
      simp only [hv, ok_bind]
      exact same _
  rw [if_neg c2]
  by_cases c3 : (line == kwQuit) = true
  · rw [if_pos c3]; exact ⟨_, _, rfl, hst.1, hst.2⟩
  rw [if_neg c3]
  by_cases c4 : hasPrefix line Gen.uPosition_bytes = true
  · rw [if_pos c4]
    obtain ⟨r, hr, hk⟩ := doPosition_total ho st hst.1 _ (hpre c4)
    exact ⟨r.1, r.2, hr, hk.stateOk hst⟩
  rw [if_neg c4]
  by_cases c5 : (line == Gen.uUci_bytes) = true
  · rw [if_pos c5]; exact same _
  rw [if_neg c5]
  by_cases c6 : hasPrefix line Gen.uGo_bytes = true
  · rw [if_pos c6]
    obtain ⟨r, hr, hk⟩ := doGo_total (G := G) st hst.1 (ops.str.trimSpace (trimPrefix line Gen.uGo_bytes))
    exact ⟨r.1, r.2, hr, hk.stateOk hst⟩
  rw [if_neg c6]
  by_cases c7 : (line == kwStop) = true
  · rw [if_pos c7]; exact same _
  rw [if_neg c7]
  by_cases c8 : hasPrefix line Gen.uOptionSet_bytes = true
  · rw [if_pos c8]
    obtain ⟨st', h1, h2, _⟩ := setOption_total st hst (ops.str.trimSpace (trimPrefix line Gen.uOptionSet_bytes))
    simp only [h1, ok_bind]
    exact ⟨_, _, rfl, h2⟩
  rw [if_neg c8]
  by_cases c9 : (line == kwTostr) = true
  · rw [if_pos c9]
    cases hp : st.pos with
    | none => exact same _
    | some p =>
      dsimp only
      cases ops.tostrOp p <;> exact same _
  rw [if_neg c9]
  by_cases c10 : hasPrefix line kwPerft = true
  · rw [if_pos c10]
    obtain ⟨out, h⟩ := doPerft_total ho false st hst.1 (ops.str.trimSpace (trimPrefix line kwPerft))
    exact ⟨_, _, h, hst⟩
  rw [if_neg c10]
  by_cases c11 : hasPrefix line kwTperft = true
  · rw [if_pos c11]
    obtain ⟨out, h⟩ := doPerft_total ho true st hst.1 (ops.str.trimSpace (trimPrefix line kwTperft))
    exact ⟨_, _, h, hst⟩
  rw [if_neg c11]
  by_cases c12 : (line == kwHelp) = true
  · rw [if_pos c12]; exact same _
  rw [if_neg c12]
  exact same _

/-- a whole session -/
theorem uciRun_total {ops : EngineOps} {G : Position → Prop} {Legal : Position → Move → Prop}
    (ho : OpsTotal ops G Legal) (lines : List Bytes) : ∀ st : UciState, StateOk G st → SessionPre ops Legal st lines →
      ∃ st' outs, uciRun ops st lines = .ok (st', outs) ∧ StateOk G st' ∧ outs.length = lines.length := by
  induction lines with
  | nil => intro st hst _; exact ⟨st, [], rfl, hst, rfl⟩
  | cons l ls ih =>
    intro st hst hpre
    obtain ⟨hp, hrest⟩ := hpre
    obtain ⟨st1, out, h1, hst1⟩ := uciStep_total ho hst hp
    obtain ⟨st2, outs, h2, hst2, hlen⟩ := ih st1 hst1 (hrest st1 out h1)
    unfold uciRun
    simp only [h1, h2, ok_bind]
    exact ⟨st2, out :: outs, rfl, hst2, by simp [hlen]⟩

/-! ### a rejected FEN keeps the old position -/

theorem parsePosition_rejected {ops : EngineOps} {st st' : UciState} {s : Bytes} {e : FenError}
    (h : parsePosition ops st s = .ok (st', some e)) : st' = st := by
  unfold parsePosition at h
  split at h
  · cases h
  · dsimp only at h
    cases hf : parseFen (if hasPrefix s (Gen.uFen_bytes ++ [32]) = true then ops.str.trimSpace (trimPrefix s Gen.uFen_bytes) else s) with
    | error x => rw [hf] at h; cases h
    | ok r =>
      rw [hf] at h
      cases r with
      | error e' => cases h; rfl
      | ok p => cases h

theorem applyMoves_out {ops : EngineOps} (l : List Bytes) : ∀ (st st' : UciState) (out : List UOut),
    applyMoves ops st l = .ok (st', out) → ∀ e, UOut.invalidFen e ∉ out := by
  induction l with
  | nil =>
    intro st st' out h e
    cases h; simp
  | cons ms rest ih =>
    intro st st' out h e
    unfold applyMoves at h
    split at h
    · cases h; simp
    · split at h
      · cases h
      · next p _ =>
        cases ha : ops.applyMove p _ with
        | error x => rw [ha] at h; cases h
        | ok p' => rw [ha] at h; exact ih _ _ _ h e

/-- Whenever a `position` command answers `invalid FEN`, the current position (and everything else except
    the killer table, which the command clears when it has no move list) is what it was before. -/
theorem doPosition_keeps_old {ops : EngineOps} {st st' : UciState} {cmd : Bytes} {out : List UOut} {e : FenError}
    (h : doPosition ops st cmd = .ok (st', out)) (he : UOut.invalidFen e ∈ out) :
    st'.pos = st.pos ∧ st'.logInterval = st.logInterval ∧ st'.searchAllocated = st.searchAllocated ∧ st'.quit = st.quit := by
  unfold doPosition at h
  cases hh : positionHead ops st cmd with
  | error x => rw [hh] at h; cases h
  | ok r =>
    rw [hh] at h
    unfold positionHead at hh
    cases r with
    | noMoves st1 err =>
      simp only [ok_bind] at h
      cases h
      cases err with
      | none => simp at he
      | some e1 =>
        cases hi : indexOf Gen.uMoves_bytes cmd with
        | some i =>
          rw [hi] at hh
          dsimp only at hh
          cases h1 : sliceTo cmd i with
          | error x => rw [h1] at hh; cases hh
          | ok hd =>
            rw [h1] at hh
            simp only [ok_bind] at hh
            cases h2 : parsePosition ops st (ops.str.trimSpace hd) with
            | error x => rw [h2] at hh; cases hh
            | ok r2 =>
              rw [h2] at hh
              simp only [ok_bind] at hh
              cases h3 : r2.2 with
              | some e2 => rw [h3] at hh; cases hh
              | none =>
                rw [h3] at hh
                dsimp only at hh
                cases h4 : sliceFrom cmd (i + Gen.uMoves_bytes.length) with
                | error x => rw [h4] at hh; cases hh
                | ok tl => rw [h4] at hh; cases hh
        | none =>
          rw [hi] at hh
          dsimp only at hh
          cases h2 : parsePosition ops st cmd with
          | error x => rw [h2] at hh; cases hh
          | ok r2 =>
            rw [h2] at hh
            obtain ⟨s2, e2⟩ := r2
            cases hh
            rw [parsePosition_rejected h2]
            exact ⟨rfl, rfl, rfl, rfl⟩
    | rejected st1 e1 =>
      simp only [ok_bind] at h
      cases h
      cases hi : indexOf Gen.uMoves_bytes cmd with
      | none =>
        rw [hi] at hh
        dsimp only at hh
        cases h2 : parsePosition ops st cmd with
        | error x => rw [h2] at hh; cases hh
        | ok r2 => rw [h2] at hh; cases hh
      | some i =>
        rw [hi] at hh
        dsimp only at hh
        cases h1 : sliceTo cmd i with
        | error x => rw [h1] at hh; cases hh
        | ok hd =>
          rw [h1] at hh
          simp only [ok_bind] at hh
          cases h2 : parsePosition ops st (ops.str.trimSpace hd) with
          | error x => rw [h2] at hh; cases hh
          | ok r2 =>
            rw [h2] at hh
            simp only [ok_bind] at hh
            obtain ⟨s2, e2⟩ := r2
            cases e2 with
            | none =>
              dsimp only at hh
              cases h4 : sliceFrom cmd (i + Gen.uMoves_bytes.length) with
              | error x => rw [h4] at hh; cases hh
              | ok tl => rw [h4] at hh; cases hh
            | some e3 =>
              cases hh
              rw [parsePosition_rejected h2]
              exact ⟨rfl, rfl, rfl, rfl⟩
    | moves st1 ms =>
      simp only [ok_bind] at h
      exact absurd he (applyMoves_out ms st1 st' out h e)

/-! ### dispatch facts used for the concrete regression lines -/

theorem uciStep_position {ops : EngineOps} {st : UciState} {line : Bytes}
    (h1 : (line == Gen.uIsReady_bytes) = false) (h2 : (line == kwEval) = false) (h3 : (line == kwQuit) = false)
    (h4 : hasPrefix line Gen.uPosition_bytes = true) :
    uciStep ops st line = doPosition ops st (ops.str.trimSpace (trimPrefix line Gen.uPosition_bytes)) := by
  rw [uciStep]
  simp only [h1, h2, h3, h4, Bool.false_eq_true, if_false, if_true]

/-- `position <rejected fen> moves …`: the move list is NOT applied to the old position -/
theorem doPosition_rejected_moves {ops : EngineOps} {st : UciState} {cmd : Bytes} {i : Nat} {e : FenError}
    (hi : indexOf Gen.uMoves_bytes cmd = some i)
    (hs : hasPrefix (ops.str.trimSpace (cmd.take i)) Gen.uStartpos_bytes = false)
    (hf : hasPrefix (ops.str.trimSpace (cmd.take i)) (Gen.uFen_bytes ++ [32]) = false)
    (hp : parseFen (ops.str.trimSpace (cmd.take i)) = .ok (.error e)) :
    doPosition ops st cmd = .ok (st, [.invalidFen e]) := by
  have hb := indexOf_bound _ _ _ hi
  unfold doPosition positionHead
  simp only [hi, sliceTo_total (show i ≤ cmd.length by omega), ok_bind]
  unfold parsePosition
  simp only [hs, hf, Bool.false_eq_true, if_false, hp, ok_bind, pure_bind']
  rfl

theorem not_beq_of_prefix {line kw : Bytes} (h4 : hasPrefix line Gen.uPosition_bytes = true)
    (hk : hasPrefix kw Gen.uPosition_bytes = false) : (line == kw) = false := by
  cases hh : (line == kw) with
  | false => rfl
  | true =>
    have := eq_of_beq hh
    subst this
    rw [h4] at hk; cases hk

/-- a line with the prefix `position` reaches `doPosition` -/
theorem uciStep_position' {ops : EngineOps} {st : UciState} {line : Bytes}
    (h4 : hasPrefix line Gen.uPosition_bytes = true) :
    uciStep ops st line = doPosition ops st (ops.str.trimSpace (trimPrefix line Gen.uPosition_bytes)) :=
  uciStep_position (not_beq_of_prefix h4 (by decide)) (not_beq_of_prefix h4 (by decide))
    (not_beq_of_prefix h4 (by decide)) h4

/-! ### Boolean checkers of the precondition, for kernel-evaluated examples
    (`Legal` := "`applyMove` returns normally and the result passes the Boolean test `g`") -/

def movesOkB (ops : EngineOps) (g : Position → Bool) : Position → List Bytes → Bool
  | _, [] => true
  | p, ms :: rest =>
    match parseMoveString ops.str.lower ms with
    | none => true
    | some mv =>
      match ops.applyMove p mv with
      | .ok p' => g p' && movesOkB ops g p' rest
      | .error _ => false

def preB (ops : EngineOps) (g : Position → Bool) (st : UciState) (line : Bytes) : Bool :=
  !hasPrefix line Gen.uPosition_bytes ||
    match positionHead ops st (ops.str.trimSpace (trimPrefix line Gen.uPosition_bytes)) with
    | .ok (.moves st' ms) => (match st'.pos with | some p => movesOkB ops g p ms | none => true)
    | _ => true

def sessionPreB (ops : EngineOps) (g : Position → Bool) : UciState → List Bytes → Bool
  | _, [] => true
  | st, l :: ls =>
    preB ops g st l &&
      match uciStep ops st l with
      | .ok r => sessionPreB ops g r.1 ls
      | .error _ => true

theorem movesLegal_of_B {ops : EngineOps} {g : Position → Bool} {G : Position → Prop} (hg : ∀ p, g p = true → G p)
    (l : List Bytes) : ∀ p, movesOkB ops g p l = true → MovesLegal ops (LegalByApply ops G) p l := by
  induction l with
  | nil => intro p _; trivial
  | cons ms rest ih =>
    intro p h
    unfold movesOkB at h
    unfold MovesLegal
    cases hm : parseMoveString ops.str.lower ms with
    | none => trivial
    | some mv =>
      rw [hm] at h
      dsimp only at h ⊢
      cases ha : ops.applyMove p mv with
      | error x => rw [ha] at h; cases h
      | ok p' =>
        rw [ha] at h
        simp only [Bool.and_eq_true] at h
        refine ⟨⟨p', ha, hg p' h.1⟩, fun q hq => ?_⟩
        cases hq
        exact ih p' h.2

theorem pre_of_preB {ops : EngineOps} {g : Position → Bool} {G : Position → Prop} (hg : ∀ p, g p = true → G p)
    {st : UciState} {line : Bytes} (h : preB ops g st line = true) : Pre ops (LegalByApply ops G) st line := by
  intro hp st' ms hh p hpos
  unfold preB at h
  rw [hp, hh] at h
  simp only [Bool.not_true, Bool.false_or, hpos] at h
  exact movesLegal_of_B hg ms p h

theorem sessionPre_of_B {ops : EngineOps} {g : Position → Bool} {G : Position → Prop} (hg : ∀ p, g p = true → G p)
    (lines : List Bytes) : ∀ st, sessionPreB ops g st lines = true → SessionPre ops (LegalByApply ops G) st lines := by
  induction lines with
  | nil => intro st _; trivial
  | cons l ls ih =>
    intro st h
    unfold sessionPreB at h
    simp only [Bool.and_eq_true] at h
    refine ⟨pre_of_preB hg h.1, fun st' out hs => ?_⟩
    have h2 := h.2
    rw [hs] at h2
    exact ih st' h2

/-- with `Legal` read through the model, the `apply` clause of `OpsTotal` holds by definition -/
theorem opsTotal_byApply {ops : EngineOps} {G : Position → Prop}
    (start : G ops.startPos) (fen : ∀ s p, parseFen s = .ok (.ok p) → G p)
    (eval : ∀ p, G p → ∃ v, ops.evalOp p = .ok v)
    (perft : ∀ p d, G p → 0 < d → d < Gen.plyBufferCapacity → ∃ r, ops.perftDivOp p d = .ok r)
    (tperft : ∀ p d, G p → 0 < d → d < Gen.plyBufferCapacity → ∃ r, ops.tperftDivOp p d = .ok r) :
    OpsTotal ops G (LegalByApply ops G) :=
  ⟨start, fen, eval, perft, tperft, fun _ _ _ h => h⟩

end Magog.UciTotal
