import Magog.Lemmas.Attack
import Magog.Spec.FenInv

/-! The well-formedness invariant of a model position (`Inv`), shared by the chess-rule refinement proofs
    (C01, C02, C06, C15) and established for every position the FEN loader accepts (C08).

    It is exactly: the 0x88 board holds only the twelve piece codes on board squares and nothing off board;
    each side's pawn list / piece list / king square describe exactly that colour's men (`Atk.SideOk`,
    both directions), without duplicates and within the fixed capacities; no pawn on a back rank; castling
    flags only with king and rook at home; the en-passant square absent or consistent. -/

namespace Magog
open Magog.Model Magog.Atk

structure Inv (p : Position) : Prop where
  board : BoardOk p.board
  offBoard : ∀ i : Nat, i < 128 → isValid i = false → p.board[i]? = some 0
  white : SideOk p.board (p.side true) true
  black : SideOk p.board (p.side false) false
  wpNodup : p.whitePawns.Nodup
  bpNodup : p.blackPawns.Nodup
  wpcNodup : p.whitePieces.Nodup
  bpcNodup : p.blackPieces.Nodup
  wpLen : p.whitePawns.length ≤ pawnCap
  bpLen : p.blackPawns.length ≤ pawnCap
  wLen : p.whitePawns.length + p.whitePieces.length ≤ pieceCap
  bLen : p.blackPawns.length + p.blackPieces.length ≤ pieceCap
  noBackPawn : ∀ i : Nat, (p.board[i]? = some Gen.WPawn ∨ p.board[i]? = some Gen.BPawn) →
    rankOf i ≠ Gen.Rank1 ∧ rankOf i ≠ Gen.Rank8
  flags : p.flags < 32
  castling : castlingConsistent p = true
  ep : p.ep = InvalidSq ∨ FenSpec.EpOk p

/-- Boolean checker for concrete positions -/
def invB (p : Position) : Bool :=
  boardOkB p.board &&
  ((List.range 128).all fun i => isValid i || p.board[i]? == some 0) &&
  sideOkB p.board (p.side true) true && sideOkB p.board (p.side false) false &&
  decide p.whitePawns.Nodup && decide p.blackPawns.Nodup && decide p.whitePieces.Nodup && decide p.blackPieces.Nodup &&
  decide (p.whitePawns.length ≤ pawnCap) && decide (p.blackPawns.length ≤ pawnCap) &&
  decide (p.whitePawns.length + p.whitePieces.length ≤ pieceCap) &&
  decide (p.blackPawns.length + p.blackPieces.length ≤ pieceCap) &&
  ((List.range 128).all fun i =>
    !(p.board[i]? == some Gen.WPawn || p.board[i]? == some Gen.BPawn) ||
      (rankOf i != Gen.Rank1 && rankOf i != Gen.Rank8)) &&
  decide (p.flags < 32) && castlingConsistent p &&
  (p.ep == InvalidSq ||
    (decide (p.ep < 128) && isValid p.ep && p.board[p.ep]? == some 0 &&
      (if whiteTurn p then
        rankOf p.ep == Gen.Rank6 && p.board[p.ep - Gen.UnitRank]? == some Gen.BPawn && p.board[p.ep + Gen.UnitRank]? == some 0
       else
        rankOf p.ep == Gen.Rank3 && p.board[p.ep + Gen.UnitRank]? == some Gen.WPawn && p.board[p.ep - Gen.UnitRank]? == some 0)))

theorem inv_of_invB {p : Position} (h : invB p = true) : Inv p := by
  simp only [invB, Bool.and_eq_true, decide_eq_true_eq, List.all_eq_true, List.mem_range, Bool.or_eq_true,
    beq_iff_eq, Bool.not_eq_true', bne_iff_ne, ne_eq] at h
  obtain ⟨⟨⟨⟨⟨⟨⟨⟨⟨⟨⟨⟨⟨⟨⟨hb, hoff⟩, hw⟩, hbl⟩, n1⟩, n2⟩, n3⟩, n4⟩, l1⟩, l2⟩, l3⟩, l4⟩, hbp⟩, hf⟩, hc⟩, hep⟩ := h
  refine ⟨boardOk_of_boardOkB hb, fun i hi hv => ?_, sideOk_of_sideOkB hw, sideOk_of_sideOkB hbl, n1, n2, n3, n4,
    l1, l2, l3, l4, fun i hi => ?_, hf, hc, ?_⟩
  · rcases hoff i hi with h | h
    · rw [h] at hv; cases hv
    · exact h
  · have hsz : p.board.size = 128 := (boardOk_of_boardOkB hb).size
    have hi128 : i < 128 := by
      rcases Nat.lt_or_ge i 128 with hlt | hge
      · exact hlt
      · rcases hi with hi | hi <;>
        · rw [Array.getElem?_eq_none (by omega)] at hi
          cases hi
    rcases hbp i hi128 with h | h
    · rcases hi with hi | hi
      · simp [hi] at h
      · simp [hi] at h
    · exact h
  · rcases hep with h | h
    · exact .inl h
    · refine .inr ?_
      obtain ⟨⟨⟨h1, h2⟩, h3⟩, h4⟩ := h
      refine ⟨h1, h2, h3, ?_⟩
      split
      · rename_i hw'
        simp only [hw', ↓reduceIte, Bool.and_eq_true, beq_iff_eq] at h4
        exact ⟨h4.1.1, h4.1.2, h4.2⟩
      · rename_i hw'
        simp only [hw', Bool.false_eq_true, ↓reduceIte, Bool.and_eq_true, beq_iff_eq] at h4
        exact ⟨h4.1.1, h4.1.2, h4.2⟩

/-- non-vacuity: the engine's initial position is well-formed -/
theorem inv_startPosition : Inv startPosition := inv_of_invB (by decide +kernel)

end Magog
