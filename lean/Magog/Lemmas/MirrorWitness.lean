import Magog.Lemmas.MirrorEval

/-! Concrete positions for the non-vacuity examples of C15 (everything about them is checked by
    kernel evaluation). -/

namespace Magog.Mir
open Magog Magog.Model Magog.Count Magog.Geo Magog.Atk

/-- a simple integer blend (the driver uses the `float64` one; the theorems hold for every blend) -/
def c15Blend : Blend := fun msum mid endg => mid + 2 * endg + (msum : Int)

/-- an asymmetric position: White Ke1, Ra1, Pa7, Pc2 (may castle queenside); black Kh6, Rb8, Nf6, Pg7;
    White to move -/
def c15Witness : Position :=
  { board := ((((((((Array.replicate 128 0).setIfInBounds Gen.E1 Gen.WKing).setIfInBounds Gen.H6 Gen.BKing).setIfInBounds
      Gen.A7 Gen.WPawn).setIfInBounds Gen.B8 Gen.BRook).setIfInBounds Gen.A1 Gen.WRook).setIfInBounds
      Gen.C2 Gen.WPawn).setIfInBounds Gen.F6 Gen.BKnight).setIfInBounds Gen.G7 Gen.BPawn,
    blackPieces := [Gen.B8, Gen.F6], whitePieces := [Gen.A1], blackPawns := [Gen.G7],
    whitePawns := [Gen.A7, Gen.C2],
    blackKing := Gen.H6, whiteKing := Gen.E1, flags := Gen.FlagWhiteTurn ||| Gen.FlagWhiteCanCastleQside,
    ep := InvalidSq, ply := 0 }

/-- `MirrorOk`, but with a white pawn on the eighth rank: `countMoves` reads `board[0x81]` and panics;
    in the mirror image the black pawn on the first rank makes it read `board[0xF1]` -/
def c15BackPawn : Position :=
  { board := (((Array.replicate 128 0).setIfInBounds Gen.E1 Gen.WKing).setIfInBounds Gen.H6 Gen.BKing).setIfInBounds
      Gen.A8 Gen.WPawn,
    blackPieces := [], whitePieces := [], blackPawns := [], whitePawns := [Gen.A8],
    blackKing := Gen.H6, whiteKing := Gen.E1, flags := Gen.FlagWhiteTurn, ep := InvalidSq, ply := 0 }

/-- White Ke1; black Ke8, Pd2; White to move. The "move" a3–e8 from an EMPTY square (not `MoveOk`) wipes
    the black king's slot; `isUnderCheck` then selects the white pawn-attack flag on both sides of the
    mirror, and the verdicts differ: `MoveOk` cannot be dropped from `makeMove_mirror`. -/
def c15NoOwn : Position :=
  { board := (((Array.replicate 128 0).setIfInBounds Gen.E1 Gen.WKing).setIfInBounds Gen.E8 Gen.BKing).setIfInBounds
      Gen.D2 Gen.BPawn,
    blackPieces := [], whitePieces := [], blackPawns := [Gen.D2], whitePawns := [],
    blackKing := Gen.E8, whiteKing := Gen.E1, flags := Gen.FlagWhiteTurn, ep := InvalidSq, ply := 0 }

/-- the panic of a computation, if any -/
def errVal {α} (x : M α) : Option Panic :=
  match x with
  | .ok _ => none
  | .error e => some e

theorem errVal_eq {α} {x : M α} {e : Panic} (h : errVal x = some e) : x = .error e := by
  cases x with
  | ok a => cases h
  | error e' => cases h; rfl

theorem c15Witness_ok : MirrorOk c15Witness := mirrorOk_of_B (by decide +kernel)
theorem c15BackPawn_ok : MirrorOk c15BackPawn := mirrorOk_of_B (by decide +kernel)

set_option maxRecDepth 100000 in
theorem c15Witness_eval : okVal (evaluate c15Blend c15Witness 3) = some (-190) := by decide +kernel

set_option maxRecDepth 100000 in
theorem c15Witness_eval_mirror : okVal (evaluate c15Blend (mirror c15Witness) 3) = some (-190) := by
  decide +kernel

set_option maxRecDepth 100000 in
theorem c15Witness_counts : okVal (countMoves c15Witness) = some 24 ∧
    okVal (countMoves (mirror c15Witness)) = some 24 ∧ okVal (countMoves (flipTurn c15Witness)) = some 28 := by
  decide +kernel

set_option maxRecDepth 100000 in
theorem c15Witness_lazy : okVal (lazyEvaluate c15Blend c15Witness 3 400 500) = some (-170) ∧
    okVal (lazyEvaluate c15Blend (mirror c15Witness) 3 400 500) = some (-170) := by decide +kernel

set_option maxRecDepth 100000 in
theorem c15BackPawn_err : errVal (evaluate c15Blend c15BackPawn 3) = some (.index "board" 129) := by
  decide +kernel

set_option maxRecDepth 100000 in
theorem c15BackPawn_err_mirror :
    errVal (evaluate c15Blend (mirror c15BackPawn) 3) = some (.index "board" 241) := by
  decide +kernel

set_option maxRecDepth 100000 in
theorem c15NoOwn_fact : mirrorOkB c15NoOwn = true ∧
    (okVal (makeMove c15NoOwn ⟨Gen.A3, Gen.E8, 0, InvalidSq⟩)).map (·.2) = some true ∧
    (okVal (makeMove (mirror c15NoOwn) (mirrorMove ⟨Gen.A3, Gen.E8, 0, InvalidSq⟩))).map (·.2) = some false := by
  decide +kernel

/-- the mirror image of the start position: the same lists (it is symmetric), Black to move -/
theorem mirror_start : (mirror startPosition).whitePieces = startPosition.whitePieces ∧
    (mirror startPosition).blackPawns = startPosition.blackPawns ∧
    (mirror startPosition).board = startPosition.board ∧
    whiteTurn (mirror startPosition) = false ∧ (mirror startPosition).flags = 30 := by
  decide +kernel

end Magog.Mir
