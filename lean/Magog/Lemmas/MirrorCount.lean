import Magog.Lemmas.MirrorMake
import Magog.Lemmas.CountGen
import Magog.Lemmas.CountKing

/-! C15 helpers, part 9: the mobility count `countMoves` is colour-symmetric (up to the panic payload:
    the direction lists of the mirrored position are permutations of the original ones). -/

set_option linter.unusedSimpArgs false

namespace Magog.Mir
open Magog Magog.Model Magog.Count Magog.Geo Magog.Atk

/-! ### the context record -/

def advOf (w : Bool) : Nat := if w then Gen.DirN else Gen.DirS
def startRankOf (w : Bool) : Nat := if w then Gen.Rank2 else Gen.Rank7
def promoRankOf (w : Bool) : Nat := if w then Gen.Rank8 else Gen.Rank1

def ctxW (w : Bool) (p : Position) : Ctx :=
  { cur := p.side w, en := p.side (!w), adv := advOf w, curBit := colBit w, enBit := colBit (!w),
    qOk := p.flags &&& flagQ w != 0, kOk := p.flags &&& flagK w != 0,
    startRank := startRankOf w, promoRank := promoRankOf w }

theorem ctx_eq (p : Position) : p.ctx = ctxW (whiteTurn p) p := by
  unfold Position.ctx ctxW
  cases whiteTurn p <;> rfl

theorem ctx_mirror {p : Position} (h : p.flags < 256) : (mirror p).ctx = ctxW (!whiteTurn p) (mirror p) := by
  rw [ctx_eq, whiteTurn_mirror h]

theorem rank_fin (w : Bool) :
    mirrorSq (startRankOf w) = startRankOf (!w) ∧ mirrorSq (promoRankOf w) = promoRankOf (!w) ∧
    mirDir (advOf w) = advOf (!w) ∧ (advOf w = Gen.DirN ∨ advOf w = Gen.DirS) := by
  cases w <;> decide

theorem rankEq_mirror (w : Bool) (s : Nat) :
    (rankOf (mirrorSq s) == startRankOf (!w)) = (rankOf s == startRankOf w) ∧
    (rankOf (mirrorSq s) == promoRankOf (!w)) = (rankOf s == promoRankOf w) := by
  obtain ⟨h1, h2, _⟩ := rank_fin w
  rw [rankOf_mirrorSq, ← h1, ← h2]
  constructor
  · rw [Bool.eq_iff_iff]; simp only [beq_iff_eq]
    exact mirrorSq_inj (a := rankOf s) (b := startRankOf w)
  · rw [Bool.eq_iff_iff]; simp only [beq_iff_eq]
    exact mirrorSq_inj (a := rankOf s) (b := promoRankOf w)

theorem colTest_fin : ∀ x < 256, ∀ w : Bool,
    (mirrorPiece x &&& colBit (!w) != 0) = (x &&& colBit w != 0) ∧
    (mirrorPiece x &&& colBit (!w) == 0) = (x &&& colBit w == 0) := by decide +kernel

theorem colTest (w : Bool) {x : Nat} (hx : x < 256) :
    (mirrorPiece x &&& colBit (!w) != 0) = (x &&& colBit w != 0) ∧
    (mirrorPiece x &&& colBit (!w) == 0) = (x &&& colBit w == 0) := colTest_fin x hx w

/-! ### the moves `countMoves` tries are `MoveOk` -/

theorem listed_fin (w : Bool) :
    (pawnOf w &&& colBit w ≠ 0 ∧ pawnOf w &&& colBit (!w) = 0 ∧ pawnOf w ≠ kingOf w) ∧
    (kingOf w &&& colBit w ≠ 0 ∧ kingOf w &&& colBit (!w) = 0) ∧
    ∀ c ∈ officersOf w, c &&& colBit w ≠ 0 ∧ c &&& colBit (!w) = 0 ∧ c ≠ kingOf w := by
  cases w <;> decide

theorem valid_lt_fin : ∀ s < 256, isValid s = true → s < 128 := by decide +kernel

theorem addb_lt (a b : Nat) : addb a b < 256 := by unfold addb; omega

theorem mem_sq88_addb {a b : Nat} (hv : isValid (addb a b) = true) : addb a b ∈ sq88 :=
  mem_sq88.2 ⟨valid_lt_fin _ (addb_lt a b) hv, hv⟩

theorem moveOk_listed {p : Position} (h : MirrorOk p) {frm : Nat}
    (hfrm : frm ∈ (p.side (whiteTurn p)).pawns ∨ frm ∈ (p.side (whiteTurn p)).pieces) (to ep : Nat) :
    MoveOk p ⟨frm, to, 0, ep⟩ := by
  have hs := h.side (whiteTurn p)
  obtain ⟨⟨p1, p2, p3⟩, _, hoff⟩ := listed_fin (whiteTurn p)
  have hown : ∃ c, p.board[frm]? = some c ∧ c &&& colBit (whiteTurn p) ≠ 0 ∧
      c &&& colBit (!whiteTurn p) = 0 ∧ c ≠ kingOf (whiteTurn p) := by
    rcases hfrm with hf | hf
    · exact ⟨_, (hs.pawns _ hf).2, p1, p2, p3⟩
    · obtain ⟨_, c, hc, hb⟩ := hs.pieces _ hf
      obtain ⟨o1, o2, o3⟩ := hoff c hc
      exact ⟨c, hb, o1, o2, o3⟩
  obtain ⟨c, hc, h1, h2, h3⟩ := hown
  have hne : frm ≠ (p.side (whiteTurn p)).king := by
    intro he
    have := hs.king.2
    rw [← he, hc] at this
    exact h3 (Option.some.inj this)
  exact ⟨⟨c, hc, h1, h2⟩, (by decide : (0:Nat) < 64), fun he => absurd he hne, fun hq => absurd hq.1 hne,
    fun hq => absurd hq.1 hne⟩

theorem moveOk_king {p : Position} (h : MirrorOk p) {d : Nat} (hd : d ∈ kingDirs)
    (hv : isValid (addb (p.side (whiteTurn p)).king d) = true) :
    MoveOk p ⟨(p.side (whiteTurn p)).king, addb (p.side (whiteTurn p)).king d, 0, InvalidSq⟩ := by
  have hs := h.side (whiteTurn p)
  obtain ⟨_, ⟨k1, k2⟩, _⟩ := listed_fin (whiteTurn p)
  refine ⟨⟨_, hs.king.2, k1, k2⟩, (by decide : (0:Nat) < 64), fun _ => mem_sq88_addb hv, fun hq => ?_, fun hq => ?_⟩
  · exact absurd hq.2.2 (king_step_not_castle _ hd hq.2.1).1
  · exact absurd hq.2.2 (king_step_not_castle _ hd hq.2.1).2

theorem mirrorEp_invalid : mirrorEp InvalidSq = InvalidSq := by decide

theorem isLegal_mirror_plain {p : Position} (h : MirrorOk p) {frm to : Nat}
    (hm : MoveOk p ⟨frm, to, 0, InvalidSq⟩) :
    okVal (isLegal (mirror p) ⟨mirrorSq frm, mirrorSq to, 0, InvalidSq⟩)
      = okVal (isLegal p ⟨frm, to, 0, InvalidSq⟩) := by
  have := isLegal_mirror h hm
  simpa only [mirrorMove, mirrorEp_invalid] using this

theorem countPawnMoves_mirror {p : Position} (h : MirrorOk p) {frm to : Nat}
    (hm : MoveOk p ⟨frm, to, 0, InvalidSq⟩) :
    okVal (countPawnMoves (mirror p) (mirrorSq frm) (mirrorSq to) (promoRankOf (!whiteTurn p)))
      = okVal (countPawnMoves p frm to (promoRankOf (whiteTurn p))) := by
  unfold countPawnMoves
  simp only [okVal_bind, isLegal_mirror_plain h hm, (rankEq_mirror (whiteTurn p) to).2]

/-! ### pawns -/

theorem mirror_board (p : Position) : (mirror p).board = mirrorBoard p.board := rfl
theorem mirror_ep (p : Position) : (mirror p).ep = mirrorEp p.ep := rfl

theorem ep_cond' {ep to : Nat} (hep : ep < 128 → isValid ep = true) (hto : to < 128) :
    (mirrorSq to == mirrorEp ep) = (to == ep) := by
  have := ep_cond hep hto
  rw [Bool.eq_iff_iff] at this ⊢
  simp only [beq_iff_eq] at this ⊢
  exact ⟨fun h => (this.1 h.symm).symm, fun h => (this.2 h.symm).symm⟩

theorem colTest' (w : Bool) {x : Nat} (hx : x < 256) :
    (mirrorPiece x &&& colBit w != 0) = (x &&& colBit (!w) != 0) ∧
    (mirrorPiece x &&& colBit w == 0) = (x &&& colBit (!w) == 0) := by
  have := colTest (!w) hx
  simpa only [Bool.not_not] using this

theorem pawnCntQG_mirror {p : Position} (h : MirrorOk p) (g : Bool) {frm : Nat}
    (hfrm : frm ∈ (p.side (whiteTurn p)).pawns) :
    okVal (pawnCntQG g (mirror p) (ctxW (!whiteTurn p) (mirror p)) (mirrorSq frm))
      = okVal (pawnCntQG g p (ctxW (whiteTurn p) p) frm) := by
  have h88 := ((h.side (whiteTurn p)).pawns _ hfrm).1
  obtain ⟨_, _, hadv, hNS⟩ := rank_fin (whiteTurn p)
  obtain ⟨s1, _, _, s4, s5, _⟩ := pawn_step h88 hNS
  rw [hadv] at s1
  unfold pawnCntQG
  simp only [ctxW, s1, okVal_bind, okVal_andM, s4]
  by_cases hv : isValid (addb (addb frm (advOf (whiteTurn p))) 0xFF) = true
  · have hlt : addb (addb frm (advOf (whiteTurn p))) 0xFF < 128 := (mem_sq88.1 (mem_sq88_addb hv)).1
    simp only [hv, if_true, s5 hv, okVal_bind, okVal_bget, okVal_pure]
    simp only [mirror, getElem?_mirrorBoard h.size]
    cases hx : p.board[addb (addb frm (advOf (whiteTurn p))) 0xFF]? with
    | none => rfl
    | some x =>
      have hx256 := h.bytes _ _ hx
      simp only [Option.map_some, Option.bind_some, (colTest' (whiteTurn p) hx256).1, Bool.not_not,
        ep_cond' h.epValid hlt]
      have := countPawnMoves_mirror h (moveOk_listed h (.inl hfrm)
        (addb (addb frm (advOf (whiteTurn p))) 0xFF) InvalidSq)
      simp only [mirror] at this
      simp only [okVal_ite, this, okVal_pure]
  · simp only [hv, Bool.false_eq_true, if_false, Option.bind_some, okVal_pure]

theorem pawnCntKG_mirror {p : Position} (h : MirrorOk p) (g : Bool) {frm : Nat}
    (hfrm : frm ∈ (p.side (whiteTurn p)).pawns) :
    okVal (pawnCntKG g (mirror p) (ctxW (!whiteTurn p) (mirror p)) (mirrorSq frm))
      = okVal (pawnCntKG g p (ctxW (whiteTurn p) p) frm) := by
  have h88 := ((h.side (whiteTurn p)).pawns _ hfrm).1
  obtain ⟨_, _, hadv, hNS⟩ := rank_fin (whiteTurn p)
  obtain ⟨s1, _, s3, _⟩ := pawn_step h88 hNS
  rw [hadv] at s1
  unfold pawnCntKG
  simp only [ctxW, s1, s3, okVal_bind, okVal_bget]
  simp only [mirror, getElem?_mirrorBoard h.size]
  cases hx : p.board[addb (addb frm (advOf (whiteTurn p))) 1]? with
  | none => rfl
  | some x =>
    have hx256 := h.bytes _ _ hx
    have hlt : addb (addb frm (advOf (whiteTurn p))) 1 < 128 := by
      have := (Array.getElem?_eq_some_iff.1 hx).1
      rw [h.size] at this; exact this
    simp only [Option.map_some, Option.bind_some, (colTest' (whiteTurn p) hx256).1, Bool.not_not,
      ep_cond' h.epValid hlt]
    have := countPawnMoves_mirror h (moveOk_listed h (.inl hfrm)
      (addb (addb frm (advOf (whiteTurn p))) 1) InvalidSq)
    simp only [mirror] at this
    by_cases hcnd : ((x &&& colBit (!whiteTurn p)) != 0 ||
        addb (addb frm (advOf (whiteTurn p))) 1 == p.ep && g) = true <;> simp [hcnd, this]

theorem pawnCntPush_mirror {p : Position} (h : MirrorOk p) {frm : Nat}
    (hfrm : frm ∈ (p.side (whiteTurn p)).pawns) :
    okVal (pawnCntPush (mirror p) (ctxW (!whiteTurn p) (mirror p)) (mirrorSq frm))
      = okVal (pawnCntPush p (ctxW (whiteTurn p) p) frm) := by
  have h88 := ((h.side (whiteTurn p)).pawns _ hfrm).1
  obtain ⟨_, _, hadv, hNS⟩ := rank_fin (whiteTurn p)
  obtain ⟨s1, s2, _, _, _, s6⟩ := pawn_step h88 hNS
  rw [hadv] at s1 s2
  unfold pawnCntPush
  simp only [ctxW, s1, s2, okVal_bind, okVal_bget]
  simp only [mirror_board, mirror_ep, getElem?_mirrorBoard h.size]
  cases hy : p.board[addb frm (advOf (whiteTurn p))]? with
  | none => rfl
  | some y =>
    have hy256 := h.bytes _ _ hy
    have hlt : addb frm (advOf (whiteTurn p)) < 128 := by
      have := (Array.getElem?_eq_some_iff.1 hy).1
      rw [h.size] at this; exact this
    have hval := s6 hlt
    simp only [Option.map_some, Option.bind_some, mirrorPiece_eq_zero hy256]
    by_cases hy0 : (y == 0) = true
    · have e1 := countPawnMoves_mirror h (moveOk_listed h (.inl hfrm) (addb frm (advOf (whiteTurn p))) InvalidSq)
      have e2 := isLegal_mirror h (moveOk_listed h (.inl hfrm)
        (addb (addb frm (advOf (whiteTurn p))) (advOf (whiteTurn p))) (addb frm (advOf (whiteTurn p))))
      simp only [mirrorMove, mirrorEp, hval, if_true] at e2
      simp only [hy0, if_true, okVal_bind, e1, okVal_andM, (rankEq_mirror (whiteTurn p) frm).1, okVal_bget,
        getElem?_mirrorBoard h.size, okVal_pure]
      refine Option.bind_congr fun single _ => ?_
      by_cases hr : (rankOf frm == startRankOf (whiteTurn p)) = true
      · simp only [hr, if_true]
        cases hz : p.board[addb (addb frm (advOf (whiteTurn p))) (advOf (whiteTurn p))]? with
        | none => rfl
        | some z =>
          have hz256 := h.bytes _ _ hz
          simp only [Option.map_some, Option.bind_some, mirrorPiece_eq_zero hz256]
          by_cases hz0 : (z == 0) = true
          · simp only [hz0, if_true, okVal_bind, e2, okVal_pure]
          · simp only [hz0, Bool.false_eq_true, if_false, okVal_pure]
      · simp only [hr, Bool.false_eq_true, if_false, Option.bind_some, okVal_pure]
    · simp only [hy0, Bool.false_eq_true, if_false, okVal_pure]

theorem pawnCount_mirror {p : Position} (h : MirrorOk p) {frm : Nat}
    (hfrm : frm ∈ (p.side (whiteTurn p)).pawns) :
    okVal (pawnCount (mirror p) (ctxW (!whiteTurn p) (mirror p)) (mirrorSq frm))
      = okVal (pawnCount p (ctxW (whiteTurn p) p) frm) := by
  rw [pawnCount_eq, pawnCount_eq]
  have hg : (rankOf (mirrorSq frm) != (ctxW (!whiteTurn p) (mirror p)).startRank)
      = (rankOf frm != (ctxW (whiteTurn p) p).startRank) := by
    simp only [ctxW, bne, (rankEq_mirror (whiteTurn p) frm).1]
  simp only [okVal_bind, hg, pawnCntQG_mirror h _ hfrm, pawnCntKG_mirror h _ hfrm, pawnCntPush_mirror h hfrm]

/-! ### officers and king -/

theorem sum_dirs_mirror {dirs : List Nat} (hperm : (dirs.map mirDir).Perm dirs) {f f' : Nat → M Nat}
    (hstep : ∀ d ∈ dirs, okVal (f' (mirDir d)) = okVal (f d)) :
    okVal (sumM' f' dirs) = okVal (sumM' f dirs) := by
  rw [← okVal_sumM'_perm f' hperm, sumM'_map]
  exact okVal_sumM'_congr hstep

theorem isLegal_step_mirror {p : Position} (h : MirrorOk p) {frm to : Nat}
    (hm : MoveOk p ⟨frm, to, 0, InvalidSq⟩) :
    okVal (do let l ← isLegal (mirror p) ⟨mirrorSq frm, mirrorSq to, 0, InvalidSq⟩; pure (b2n l))
      = okVal (do let l ← isLegal p ⟨frm, to, 0, InvalidSq⟩; pure (b2n l)) := by
  simp only [okVal_bind, isLegal_mirror_plain h hm]

theorem knightCount_mirror {p : Position} (h : MirrorOk p) {frm : Nat}
    (hfrm : frm ∈ (p.side (whiteTurn p)).pieces) :
    okVal (knightCount (mirror p) (ctxW (!whiteTurn p) (mirror p)) (mirrorSq frm))
      = okVal (knightCount p (ctxW (whiteTurn p) p) frm) := by
  have h88 := ((h.side (whiteTurn p)).pieces _ hfrm).1
  unfold knightCount
  refine sum_dirs_mirror knightDirs_perm fun d hd => ?_
  obtain ⟨d1, d2⟩ := dir_mirror h88 (mem_allDirs_knight hd)
  simp only [ctxW, okVal_bind, okVal_andM, d1]
  by_cases hv : isValid (addb frm d) = true
  · simp only [hv, if_true, d2 hv, okVal_bind, okVal_bget, okVal_pure]
    simp only [mirror_board, mirror_ep, getElem?_mirrorBoard h.size]
    cases hx : p.board[addb frm d]? with
    | none => rfl
    | some x =>
      have hx256 := h.bytes _ _ hx
      have e1 := isLegal_step_mirror h (moveOk_listed h (.inr hfrm) (addb frm d) InvalidSq)
      simp only [Option.map_some, Option.bind_some, (colTest (whiteTurn p) hx256).2]
      by_cases hc : (x &&& colBit (whiteTurn p) == 0) = true
      · simp only [hc, if_true]; exact e1
      · simp only [hc, Bool.false_eq_true, if_false]
  · simp only [hv, Bool.false_eq_true, if_false, Option.bind_some]

theorem slideDirCount_mirror {p : Position} (h : MirrorOk p) {frm : Nat}
    (hfrm : frm ∈ (p.side (whiteTurn p)).pieces) {dir : Nat} (hdir : dir ∈ allDirs) :
    ∀ (fuel to to' : Nat), to < 256 → isValid to' = isValid to → (isValid to = true → to' = mirrorSq to) →
      okVal (slideDirCount (mirror p) (ctxW (!whiteTurn p) (mirror p)) (mirrorSq frm) (mirDir dir) fuel to')
        = okVal (slideDirCount p (ctxW (whiteTurn p) p) frm dir fuel to) := by
  intro fuel
  induction fuel with
  | zero => intro to to' _ _ _; rfl
  | succ n ih =>
    intro to to' hlt hv1 hv2
    unfold slideDirCount
    by_cases hv : isValid to = true
    · have hto' := hv2 hv
      subst hto'
      have hto88 : to ∈ sq88 := mem_sq88.2 ⟨valid_lt_fin _ hlt hv, hv⟩
      obtain ⟨d1, d2⟩ := dir_mirror hto88 hdir
      simp only [isValid_mirrorSq, hv, Bool.not_true, Bool.false_eq_true, if_false, okVal_bind, okVal_bget, ctxW]
      simp only [mirror_board, mirror_ep, getElem?_mirrorBoard h.size]
      cases hx : p.board[to]? with
      | none => rfl
      | some x =>
        have hx256 := h.bytes _ _ hx
        have e1 := isLegal_mirror_plain h (moveOk_listed h (.inr hfrm) to InvalidSq)
        have e2 := ih (addb to dir) (addb (mirrorSq to) (mirDir dir)) (addb_lt _ _) d1 d2
        simp only [ctxW, Bool.not_not] at e2
        simp only [Option.map_some, Option.bind_some, Bool.not_not, (colTest (whiteTurn p) hx256).1,
          (colTest' (whiteTurn p) hx256).1]
        by_cases hc : (x &&& colBit (whiteTurn p) != 0) = true
        · simp only [hc, if_true]
        · simp only [hc, Bool.false_eq_true, if_false, okVal_bind, e1]
          refine Option.bind_congr fun l _ => ?_
          by_cases he : (x &&& colBit (!whiteTurn p) != 0) = true
          · simp only [he, if_true]
          · simp only [he, Bool.false_eq_true, if_false, okVal_bind, e2]
    · have hv' : isValid to' = false := by rw [hv1]; simpa using hv
      have hvf : isValid to = false := by simpa using hv
      simp only [hv', hvf, Bool.not_false, if_true]

theorem slide_mirror {p : Position} (h : MirrorOk p) {frm : Nat}
    (hfrm : frm ∈ (p.side (whiteTurn p)).pieces) {dirs : List Nat} (hperm : (dirs.map mirDir).Perm dirs)
    (hsub : ∀ d ∈ dirs, d ∈ allDirs) :
    okVal (sumM' (fun d => slideDirCount (mirror p) (ctxW (!whiteTurn p) (mirror p)) (mirrorSq frm) d 8
        (addb (mirrorSq frm) d)) dirs)
      = okVal (sumM' (fun d => slideDirCount p (ctxW (whiteTurn p) p) frm d 8 (addb frm d)) dirs) := by
  have h88 := ((h.side (whiteTurn p)).pieces _ hfrm).1
  refine sum_dirs_mirror hperm fun d hd => ?_
  obtain ⟨d1, d2⟩ := dir_mirror h88 (hsub d hd)
  exact slideDirCount_mirror h hfrm (hsub d hd) 8 _ _ (addb_lt _ _) d1 d2

theorem pieceCode_fin : ∀ x < 256,
    (mirrorPiece x == Gen.WKnight || mirrorPiece x == Gen.BKnight) = (x == Gen.WKnight || x == Gen.BKnight) ∧
    (mirrorPiece x == Gen.WBishop || mirrorPiece x == Gen.BBishop) = (x == Gen.WBishop || x == Gen.BBishop) ∧
    (mirrorPiece x == Gen.WRook || mirrorPiece x == Gen.BRook) = (x == Gen.WRook || x == Gen.BRook) ∧
    (mirrorPiece x == Gen.WQueen || mirrorPiece x == Gen.BQueen) = (x == Gen.WQueen || x == Gen.BQueen) := by
  decide +kernel

theorem pieceCount_mirror {p : Position} (h : MirrorOk p) {frm : Nat}
    (hfrm : frm ∈ (p.side (whiteTurn p)).pieces) :
    okVal (pieceCount (mirror p) (ctxW (!whiteTurn p) (mirror p)) (mirrorSq frm))
      = okVal (pieceCount p (ctxW (whiteTurn p) p) frm) := by
  unfold pieceCount
  simp only [okVal_bind, okVal_bget]
  have hb : (mirror p).board[mirrorSq frm]? = p.board[frm]?.map mirrorPiece := getElem?_mirrorBoard h.size frm
  rw [hb]
  cases hx : p.board[frm]? with
  | none => rfl
  | some x =>
    have hx256 := h.bytes _ _ hx
    obtain ⟨c1, c2, c3, c4⟩ := pieceCode_fin x hx256
    simp only [Option.map_some, Option.bind_some, c1, c2, c3, c4]
    by_cases h1 : (x == Gen.WKnight || x == Gen.BKnight) = true
    · simp only [h1, if_true]; exact knightCount_mirror h hfrm
    · simp only [h1, Bool.false_eq_true, if_false]
      by_cases h2 : (x == Gen.WBishop || x == Gen.BBishop) = true
      · simp only [h2, if_true]; exact slide_mirror h hfrm bishopDirs_perm (fun d => mem_allDirs_bishop)
      · simp only [h2, Bool.false_eq_true, if_false]
        by_cases h3 : (x == Gen.WRook || x == Gen.BRook) = true
        · simp only [h3, if_true]; exact slide_mirror h hfrm rookDirs_perm (fun d => mem_allDirs_rook)
        · simp only [h3, Bool.false_eq_true, if_false]
          by_cases h4 : (x == Gen.WQueen || x == Gen.BQueen) = true
          · simp only [h4, if_true]; exact slide_mirror h hfrm kingDirs_perm (fun d => mem_allDirs_king)
          · simp only [h4, Bool.false_eq_true, if_false, okVal_throw]

theorem kingCount_mirror {p : Position} (h : MirrorOk p) :
    okVal (kingCount (mirror p) (ctxW (!whiteTurn p) (mirror p)))
      = okVal (kingCount p (ctxW (whiteTurn p) p)) := by
  have h88 := (h.side (whiteTurn p)).king.1
  unfold kingCount
  refine sum_dirs_mirror kingDirs_perm fun d hd => ?_
  obtain ⟨d1, d2⟩ := dir_mirror h88 (mem_allDirs_king hd)
  have hk : (ctxW (!whiteTurn p) (mirror p)).cur.king = mirrorSq (p.side (whiteTurn p)).king := by
    simp only [ctxW, side_mirror, Bool.not_not, mirrorSide]
  simp only [hk]
  simp only [ctxW, okVal_bind, okVal_andM, d1]
  by_cases hv : isValid (addb (p.side (whiteTurn p)).king d) = true
  · simp only [hv, if_true, d2 hv, okVal_bind, okVal_bget, okVal_pure]
    simp only [mirror_board, mirror_ep, getElem?_mirrorBoard h.size]
    cases hx : p.board[addb (p.side (whiteTurn p)).king d]? with
    | none => rfl
    | some x =>
      have hx256 := h.bytes _ _ hx
      have e1 := isLegal_step_mirror h (moveOk_king h hd hv)
      simp only [Option.map_some, Option.bind_some, (colTest (whiteTurn p) hx256).2]
      by_cases hc : (x &&& colBit (whiteTurn p) == 0) = true
      · simp only [hc, if_true]; exact e1
      · simp only [hc, Bool.false_eq_true, if_false]
  · simp only [hv, Bool.false_eq_true, if_false, Option.bind_some]

/-! ### castling -/

theorem notAttacked_mirror {p : Position} (h : MirrorOk p) {sq : Nat} (hsq : sq ∈ sq88) :
    notAttacked (mirror p) (ctxW (!whiteTurn p) (mirror p)) (mirrorSq sq)
      = notAttacked p (ctxW (whiteTurn p) p) sq := by
  have hen := h.side (!whiteTurn p)
  unfold notAttacked
  simp only [ctxW, side_mirror, Bool.not_not, mirror_board]
  rw [isUnderCheck_mirror h.size h.bytes (fun a ha => (hen.pawns a ha).1)
    (fun a ha => by
      obtain ⟨h1, c, hc, hb⟩ := hen.pieces a ha
      refine ⟨h1, fun x hx => ?_⟩
      rw [hb] at hx
      rw [← Option.some.inj hx]
      exact (officer_fin _ c hc).1)
    hen.king.1
    (fun x hx => by
      rw [hen.king.2] at hx
      rw [← Option.some.inj hx]
      exact (rookc_fin (!whiteTurn p)).2.2.2.1)
    hsq]

def homeSq (w : Bool) : Nat := if w then Gen.E1 else Gen.E8

theorem bgetI_nat (b : Array Nat) (n : Nat) : bgetI b (n : Int) = bget b n := by
  unfold bgetI
  have : ¬ ((n : Int) < 0) := by omega
  simp [this]

theorem home_fin (w : Bool) :
    add8 (int8 (homeSq w)) (-1) = ((homeSq w - 1 : Nat) : Int) ∧
    add8 (int8 (homeSq w)) (-2) = ((homeSq w - 2 : Nat) : Int) ∧
    add8 (int8 (homeSq w)) (-3) = ((homeSq w - 3 : Nat) : Int) ∧
    add8 (int8 (homeSq w)) 1 = ((homeSq w + 1 : Nat) : Int) ∧
    add8 (int8 (homeSq w)) 2 = ((homeSq w + 2 : Nat) : Int) ∧
    toByte ((homeSq w - 1 : Nat) : Int) = homeSq w - 1 ∧ toByte ((homeSq w - 2 : Nat) : Int) = homeSq w - 2 ∧
    toByte ((homeSq w + 1 : Nat) : Int) = homeSq w + 1 ∧ toByte ((homeSq w + 2 : Nat) : Int) = homeSq w + 2 := by
  cases w <;> decide

theorem homeMir_fin (w : Bool) :
    mirrorSq (homeSq w) = homeSq (!w) ∧ mirrorSq (homeSq w - 1) = homeSq (!w) - 1 ∧
    mirrorSq (homeSq w - 2) = homeSq (!w) - 2 ∧ mirrorSq (homeSq w - 3) = homeSq (!w) - 3 ∧
    mirrorSq (homeSq w + 1) = homeSq (!w) + 1 ∧ mirrorSq (homeSq w + 2) = homeSq (!w) + 2 ∧
    homeSq w ∈ sq88 ∧ homeSq w - 1 ∈ sq88 ∧ homeSq w - 2 ∈ sq88 ∧ homeSq w + 1 ∈ sq88 ∧ homeSq w + 2 ∈ sq88 := by
  cases w <;> decide

theorem castleQOk_home (p : Position) (c : Ctx) (w : Bool) (hK : c.cur.king = homeSq w) :
    castleQOk p c = (do
      let a ← bget p.board (homeSq w - 1)
      andM (a == 0) (do
        let b ← bget p.board (homeSq w - 2)
        andM (b == 0) (do
          let d ← bget p.board (homeSq w - 3)
          andM (d == 0) (do
            let s0 ← notAttacked p c (homeSq w)
            andM s0 (do
              let s1 ← notAttacked p c (homeSq w - 1)
              andM s1 (notAttacked p c (homeSq w - 2))))))) := by
  obtain ⟨a1, a2, a3, _, _, t1, t2, _, _⟩ := home_fin w
  unfold castleQOk
  simp only [hK, a1, a2, a3, t1, t2, bgetI_nat]

theorem castleKOk_home (p : Position) (c : Ctx) (w : Bool) (hK : c.cur.king = homeSq w) :
    castleKOk p c = (do
      let a ← bget p.board (homeSq w + 1)
      andM (a == 0) (do
        let b ← bget p.board (homeSq w + 2)
        andM (b == 0) (do
          let s0 ← notAttacked p c (homeSq w)
          andM s0 (do
            let s1 ← notAttacked p c (homeSq w + 1)
            andM s1 (notAttacked p c (homeSq w + 2)))))) := by
  obtain ⟨_, _, _, a1, a2, _, _, t1, t2⟩ := home_fin w
  unfold castleKOk
  simp only [hK, a1, a2, t1, t2, bgetI_nat]

theorem castleFlag_fin : ∀ f < 256, ∀ w : Bool,
    ((f &&& flagQ w != 0) = true ∨ (f &&& flagK w != 0) = true) →
      f &&& (flagK w ||| flagQ w) ≠ 0 := by decide +kernel

theorem king_home {p : Position} (h : MirrorOk p) (w : Bool)
    (hf : (p.flags &&& flagQ w != 0) = true ∨ (p.flags &&& flagK w != 0) = true) :
    (p.side w).king = homeSq w := by
  have := castleFlag_fin _ h.flags w hf
  cases w
  · exact h.bCastle this
  · exact h.wCastle this

theorem castleQOk_mirror {p : Position} (h : MirrorOk p)
    (hq : (p.flags &&& flagQ (whiteTurn p) != 0) = true) :
    okVal (castleQOk (mirror p) (ctxW (!whiteTurn p) (mirror p)))
      = okVal (castleQOk p (ctxW (whiteTurn p) p)) := by
  have hK := king_home h _ (.inl hq)
  obtain ⟨m0, m1, m2, m3, _, _, v0, v1, v2, _, _⟩ := homeMir_fin (whiteTurn p)
  have hK' : (ctxW (!whiteTurn p) (mirror p)).cur.king = homeSq (!whiteTurn p) := by
    simp only [ctxW, side_mirror, Bool.not_not, mirrorSide, hK, m0]
  rw [castleQOk_home _ _ _ hK', castleQOk_home _ _ (whiteTurn p) (by simpa [ctxW] using hK)]
  rw [← m1, ← m2, ← m3, ← m0, notAttacked_mirror h v0, notAttacked_mirror h v1, notAttacked_mirror h v2]
  simp only [okVal_bind, okVal_bget, mirror_board, getElem?_mirrorBoard h.size, okVal_andM]
  cases ha : p.board[homeSq (whiteTurn p) - 1]? with
  | none => rfl
  | some a =>
    simp only [Option.map_some, Option.bind_some, mirrorPiece_eq_zero (h.bytes _ _ ha)]
    by_cases ha0 : (a == 0) = true
    · simp only [ha0, if_true]
      cases hb : p.board[homeSq (whiteTurn p) - 2]? with
      | none => rfl
      | some b =>
        simp only [Option.map_some, Option.bind_some, mirrorPiece_eq_zero (h.bytes _ _ hb)]
        by_cases hb0 : (b == 0) = true
        · simp only [hb0, if_true]
          cases hd : p.board[homeSq (whiteTurn p) - 3]? with
          | none => rfl
          | some d =>
            simp only [Option.map_some, Option.bind_some, mirrorPiece_eq_zero (h.bytes _ _ hd)]
        · simp only [hb0, Bool.false_eq_true, if_false]
    · simp only [ha0, Bool.false_eq_true, if_false]

theorem castleKOk_mirror {p : Position} (h : MirrorOk p)
    (hk : (p.flags &&& flagK (whiteTurn p) != 0) = true) :
    okVal (castleKOk (mirror p) (ctxW (!whiteTurn p) (mirror p)))
      = okVal (castleKOk p (ctxW (whiteTurn p) p)) := by
  have hK := king_home h _ (.inr hk)
  obtain ⟨m0, _, _, _, m1, m2, v0, _, _, v1, v2⟩ := homeMir_fin (whiteTurn p)
  have hK' : (ctxW (!whiteTurn p) (mirror p)).cur.king = homeSq (!whiteTurn p) := by
    simp only [ctxW, side_mirror, Bool.not_not, mirrorSide, hK, m0]
  rw [castleKOk_home _ _ _ hK', castleKOk_home _ _ (whiteTurn p) (by simpa [ctxW] using hK)]
  rw [← m1, ← m2, ← m0, notAttacked_mirror h v0, notAttacked_mirror h v1, notAttacked_mirror h v2]
  simp only [okVal_bind, okVal_bget, mirror_board, getElem?_mirrorBoard h.size, okVal_andM]
  cases ha : p.board[homeSq (whiteTurn p) + 1]? with
  | none => rfl
  | some a =>
    simp only [Option.map_some, Option.bind_some, mirrorPiece_eq_zero (h.bytes _ _ ha)]
    by_cases ha0 : (a == 0) = true
    · simp only [ha0, if_true]
      cases hb : p.board[homeSq (whiteTurn p) + 2]? with
      | none => rfl
      | some b =>
        simp only [Option.map_some, Option.bind_some, mirrorPiece_eq_zero (h.bytes _ _ hb)]
    · simp only [ha0, Bool.false_eq_true, if_false]

/-! ### the count -/

/-- **the mobility count is colour-symmetric** (same value; panics on one side iff on the other) -/
theorem countMoves_okVal_mirror {p : Position} (h : MirrorOk p) :
    okVal (countMoves (mirror p)) = okVal (countMoves p) := by
  have hs := h.side (whiteTurn p)
  have hfl := flags_fin _ h.flags
  rw [countMoves_eq, countMoves_eq, ctx_mirror h.flags, ctx_eq p]
  have hpw : (ctxW (!whiteTurn p) (mirror p)).cur.pawns = (p.side (whiteTurn p)).pawns.map mirrorSq := by
    simp only [ctxW, side_mirror, Bool.not_not, mirrorSide]
  have hpc : (ctxW (!whiteTurn p) (mirror p)).cur.pieces = (p.side (whiteTurn p)).pieces.map mirrorSq := by
    simp only [ctxW, side_mirror, Bool.not_not, mirrorSide]
  have e1 : okVal (sumM' (pawnCount (mirror p) (ctxW (!whiteTurn p) (mirror p)))
        (ctxW (!whiteTurn p) (mirror p)).cur.pawns)
      = okVal (sumM' (pawnCount p (ctxW (whiteTurn p) p)) (ctxW (whiteTurn p) p).cur.pawns) := by
    rw [hpw, sumM'_map]
    exact okVal_sumM'_congr fun s hs' => pawnCount_mirror h hs'
  have e2 : okVal (sumM' (pieceCount (mirror p) (ctxW (!whiteTurn p) (mirror p)))
        (ctxW (!whiteTurn p) (mirror p)).cur.pieces)
      = okVal (sumM' (pieceCount p (ctxW (whiteTurn p) p)) (ctxW (whiteTurn p) p).cur.pieces) := by
    rw [hpc, sumM'_map]
    exact okVal_sumM'_congr fun s hs' => pieceCount_mirror h hs'
  have e3 := kingCount_mirror h
  have hq : (ctxW (!whiteTurn p) (mirror p)).qOk = (ctxW (whiteTurn p) p).qOk := by
    simp only [ctxW]
    cases whiteTurn p
    · exact hfl.2.2.2.2.1
    · exact hfl.2.2.2.2.2.2.1
  have hk : (ctxW (!whiteTurn p) (mirror p)).kOk = (ctxW (whiteTurn p) p).kOk := by
    simp only [ctxW]
    cases whiteTurn p
    · exact hfl.2.2.2.1
    · exact hfl.2.2.2.2.2.1
  have e4 : okVal (castleQCnt (mirror p) (ctxW (!whiteTurn p) (mirror p)))
      = okVal (castleQCnt p (ctxW (whiteTurn p) p)) := by
    unfold castleQCnt
    rw [hq]
    by_cases hc : (ctxW (whiteTurn p) p).qOk = true
    · simp only [hc, if_true, okVal_bind, castleQOk_mirror h hc]
    · simp only [hc, Bool.false_eq_true, if_false]
  have e5 : okVal (castleKCnt (mirror p) (ctxW (!whiteTurn p) (mirror p)))
      = okVal (castleKCnt p (ctxW (whiteTurn p) p)) := by
    unfold castleKCnt
    rw [hk]
    by_cases hc : (ctxW (whiteTurn p) p).kOk = true
    · simp only [hc, if_true, okVal_bind, castleKOk_mirror h hc]
    · simp only [hc, Bool.false_eq_true, if_false]
  simp only [okVal_bind, e1, e2, e3, e4, e5]

end Magog.Mir
