import Magog.Lemmas.SearchIter

/-! Oracle locality: a run of the search only depends on the oracle answers at the consultation numbers
    it actually reached (`< s'.tick`). -/

namespace Magog.Model
open Magog

/-- `env'` has the same static parameters as `env` and its oracles agree with `env`'s on the ticks `lo ≤ t < hi` -/
structure EnvAgree (env env' : Env) (lo hi : Nat) : Prop where
  blend : env'.blend = env.blend
  sortFn : env'.sortFn = env.sortFn
  logInterval : env'.logInterval = env.logInterval
  lazy : env'.lazy = env.lazy
  stackCap : env'.stackCap = env.stackCap
  timeUp : ∀ t, lo ≤ t → t < hi → env'.timeUp t = env.timeUp t
  stopAt : ∀ t, lo ≤ t → t < hi → env'.stopAt t = env.stopAt t
  gateOpen : ∀ t, lo ≤ t → t < hi → env'.gateOpen t = env.gateOpen t

theorem EnvAgree.mono {env env' lo hi lo' hi'} (h : EnvAgree env env' lo hi) (h1 : lo ≤ lo') (h2 : hi' ≤ hi) :
    EnvAgree env env' lo' hi' :=
  { h with
    timeUp := fun t a b => h.timeUp t (Nat.le_trans h1 a) (Nat.lt_of_lt_of_le b h2)
    stopAt := fun t a b => h.stopAt t (Nat.le_trans h1 a) (Nat.lt_of_lt_of_le b h2)
    gateOpen := fun t a b => h.gateOpen t (Nat.le_trans h1 a) (Nat.lt_of_lt_of_le b h2) }

/-- the consultation counter never decreases -/
def TickLe (s s' : SS) : Prop := s.tick ≤ s'.tick

theorem tickLe_rel (env : Env) : FrameRel env TickLe where
  refl _ := Nat.le_refl _
  trans h1 h2 := Nat.le_trans h1 h2
  consult _ := Nat.le_succ _
  nodes _ := Nat.le_refl _
  killers _ _ := Nat.le_refl _
  rows _ _ := Nat.le_refl _
  matched _ _ := Nat.le_refl _
  rootMoves _ _ := Nat.le_refl _
  firstMoveIdx _ _ := Nat.le_refl _
  interrupt _ _ := Nat.le_refl _
  infoPv _ _ _ _ _ _ := Nat.le_refl _
  currmove _ _ _ _ := Nat.le_refl _

/-- `f'` (run under `env'`) reproduces every successful run of `f` (under `env`) on whose ticks the oracles agree -/
def NodeLocal (env env' : Env) (f f' : NodeFn) : Prop :=
  ∀ p idx d a b l s v l' s', f p idx d a b l s = .ok (v, l', s') → EnvAgree env env' s.tick s'.tick →
    f' p idx d a b l s = .ok (v, l', s')

@[simp] theorem SS.consult_tick (s : SS) : s.consult.tick = s.tick + 1 := rfl

theorem pollAfterMove_eq (env : Env) (s : SS) : pollAfterMove env s =
    if s.interrupted then (true, s) else
    if env.timeUp s.tick then (true, s.consult) else
    if env.stopAt (s.tick + 1) then (false, { s.consult.consult with interrupted := true })
    else (false, s.consult.consult) := by
  unfold pollAfterMove
  simp only [SS.consult_tick, Nat.add_sub_cancel]

theorem pollAfterMove_local {env env' : Env} {s : SS}
    (ag : EnvAgree env env' s.tick (pollAfterMove env s).2.tick) : pollAfterMove env' s = pollAfterMove env s := by
  rw [pollAfterMove_eq] at ag ⊢
  rw [pollAfterMove_eq]
  by_cases hi : s.interrupted = true
  · rw [if_pos hi, if_pos hi]
  rw [if_neg hi] at ag ⊢
  rw [if_neg hi]
  by_cases hto : env.timeUp s.tick = true
  · rw [if_pos hto] at ag ⊢
    rw [ag.timeUp _ (Nat.le_refl _) (by simp), if_pos hto]
  rw [if_neg hto] at ag ⊢
  have hge : (if env.stopAt (s.tick + 1) = true then
        (false, ({ s.consult.consult with interrupted := true } : SS)) else (false, s.consult.consult)).2.tick
        = s.tick + 2 := by
    split <;> rfl
  rw [hge] at ag
  rw [ag.timeUp _ (Nat.le_refl _) (by omega), if_neg hto, ag.stopAt _ (by omega) (by omega)]

theorem qLoop_local {env env' : Env} {child child' : NodeFn} (hl : NodeLocal env env' child child')
    (hc : NodeFrame TickLe child) (p : Position) (idx depth : Nat) (beta : Int) :
    ∀ (ms : List RMove) (alpha : Int) (curLen subLen : Nat) (s : SS) (r : LoopOut),
      qLoop env child p idx depth beta ms alpha curLen subLen s = .ok r →
      EnvAgree env env' s.tick r.st.tick →
      qLoop env' child' p idx depth beta ms alpha curLen subLen s = .ok r := by
  intro ms
  induction ms with
  | nil => intro alpha curLen subLen s r h _; simpa only [qLoop] using h
  | cons mv rest ih =>
    intro alpha curLen subLen s r h ag
    simp only [qLoop] at h ⊢
    split at h
    · exact absurd h (by simp [throw_ok])
    rename_i hcap
    rw [if_neg (by rw [ag.stackCap]; exact hcap)]
    obtain ⟨mk, hmk, h⟩ := bind_ok.1 h
    refine bind_ok.2 ⟨mk, hmk, ?_⟩
    split at h
    · exact absurd h (by simp [throw_ok])
    rename_i hleg
    rw [if_neg hleg]
    obtain ⟨⟨v, sl, s1⟩, hch, h⟩ := bind_ok.1 h
    have t1 : s.tick ≤ s1.tick := hc _ _ _ _ _ _ _ _ _ _ hch
    simp only [SS.consult_tick, Nat.add_sub_cancel] at h ⊢
    have hle : s1.tick ≤ r.st.tick ∧ (¬ s1.interrupted = true → s1.tick < r.st.tick) := by
      have h' := h
      have F := tickLe_rel env
      split at h'
      · rename_i hi
        simp only [pure_ok] at h'; subst h'; exact ⟨Nat.le_refl _, fun hn => absurd hi hn⟩
      split at h'
      · simp only [pure_ok] at h'; subst h'; exact ⟨Nat.le_succ _, fun _ => Nat.lt_succ_self _⟩
      split at h'
      · simp only [pure_ok] at h'; subst h'; exact ⟨Nat.le_succ _, fun _ => Nat.lt_succ_self _⟩
      split at h'
      · obtain ⟨⟨s2, cl⟩, hu, h'⟩ := bind_ok.1 h'
        have a1 : s1.consult.tick ≤ s2.tick := updateBestLine_frame F hu
        have a2 : s2.tick ≤ r.st.tick := qLoop_frame F hc _ _ _ _ _ _ _ _ _ _ h'
        simp only [SS.consult_tick] at a1
        exact ⟨by omega, fun _ => by omega⟩
      · have a2 : s1.consult.tick ≤ r.st.tick := qLoop_frame F hc _ _ _ _ _ _ _ _ _ _ h'
        simp only [SS.consult_tick] at a2
        exact ⟨by omega, fun _ => by omega⟩
    refine bind_ok.2 ⟨(v, sl, s1), hl _ _ _ _ _ _ _ _ _ _ hch (ag.mono (Nat.le_refl _) hle.1), ?_⟩
    dsimp only
    split at h
    · rename_i hi; rw [if_pos hi]; exact h
    rename_i hi
    rw [if_neg hi, ag.timeUp s1.tick t1 (hle.2 hi)]
    split at h
    · rename_i hto; rw [if_pos hto]; exact h
    rename_i hto
    rw [if_neg hto]
    split at h
    · rename_i hb; rw [if_pos hb]; exact h
    rename_i hb
    rw [if_neg hb]
    split at h
    · rename_i ha
      rw [if_pos ha]
      obtain ⟨⟨s2, cl⟩, hu, h⟩ := bind_ok.1 h
      refine bind_ok.2 ⟨(s2, cl), hu, ?_⟩
      have a1 : s1.consult.tick ≤ s2.tick := updateBestLine_frame (tickLe_rel env) hu
      simp only [SS.consult_tick] at a1
      exact ih _ _ _ _ _ h (ag.mono (by show s.tick ≤ s2.tick; omega) (Nat.le_refl _))
    · rename_i ha
      rw [if_neg ha]
      exact ih _ _ _ _ _ h (ag.mono (by show s.tick ≤ s1.tick + 1; omega) (Nat.le_refl _))

theorem qEval_congr {env env' : Env} {lo hi} (ag : EnvAgree env env' lo hi) (p : Position) (d : Nat) (a b : Int) :
    qEval env' p d a b = qEval env p d a b := by
  unfold qEval; rw [ag.lazy, ag.blend]

theorem qLog_congr {env env' : Env} {lo hi} (ag : EnvAgree env env' lo hi) (s : SS) :
    qLog env' s = qLog env s := by
  unfold qLog; rw [ag.logInterval]

theorem quiescence_local {env env' : Env} (fuel : Nat) :
    NodeLocal env env' (quiescence env fuel) (quiescence env' fuel) := by
  induction fuel with
  | zero => intro p idx d a b l s v l' s' h; simp only [quiescence, throw_ok] at h
  | succ fuel ih =>
    intro p idx d a b l s v l' s' h ag
    rw [quiescence_succ_eq] at h ⊢
    obtain ⟨subLen, hsl, h⟩ := bind_ok.1 h
    refine bind_ok.2 ⟨subLen, hsl, ?_⟩
    obtain ⟨score, hsc, h⟩ := bind_ok.1 h
    refine bind_ok.2 ⟨score, by rw [qEval_congr ag]; exact hsc, ?_⟩
    obtain ⟨s1, hs1, h⟩ := bind_ok.1 h
    refine bind_ok.2 ⟨s1, by rw [qLog_congr ag]; exact hs1, ?_⟩
    have t1 : TickLe { s with nodes := s.nodes + 1 } s1 := qLog_frame (tickLe_rel env) hs1
    split at h
    · rename_i hb; rw [if_pos hb]; exact h
    rename_i hb
    rw [if_neg hb]
    obtain ⟨ms, hms, h⟩ := bind_ok.1 h
    refine bind_ok.2 ⟨ms, hms, ?_⟩
    obtain ⟨r, hr, h⟩ := bind_ok.1 h
    have hst : r.st = s' := by simp only [pure_ok, Prod.mk.injEq] at h; exact h.2.2
    refine bind_ok.2 ⟨r, ?_, h⟩
    rw [ag.sortFn]
    exact qLoop_local ih (quiescence_frame (tickLe_rel env) fuel) _ _ _ _ _ _ _ _ _ _ hr
      (ag.mono t1 (by rw [hst]; exact Nat.le_refl _))

theorem abLoop_local {env env' : Env} {child child' : NodeFn} (hl : NodeLocal env env' child child')
    (hc : NodeFrame TickLe child) (p : Position) (idx depth : Nat) (beta : Int) :
    ∀ (ms : List RMove) (alpha : Int) (curLen subLen : Nat) (s : SS) (r : LoopOut),
      abLoop env child p idx depth beta ms alpha curLen subLen s = .ok r →
      EnvAgree env env' s.tick r.st.tick →
      abLoop env' child' p idx depth beta ms alpha curLen subLen s = .ok r := by
  intro ms
  induction ms with
  | nil => intro alpha curLen subLen s r h _; simpa only [abLoop] using h
  | cons mv rest ih =>
    intro alpha curLen subLen s r h ag
    have F := tickLe_rel env
    rw [abLoop_cons_eq] at h ⊢
    split at h
    · rename_i hi; rw [if_pos hi]; exact h
    rename_i hi
    rw [if_neg hi]
    split at h
    · exact absurd h (by simp [throw_ok])
    rename_i hcap
    rw [if_neg (by rw [ag.stackCap]; exact hcap)]
    obtain ⟨mk, hmk, h⟩ := bind_ok.1 h
    refine bind_ok.2 ⟨mk, hmk, ?_⟩
    split at h
    · exact absurd h (by simp [throw_ok])
    rename_i hleg
    rw [if_neg hleg]
    obtain ⟨⟨v, sl, s1⟩, hch, h⟩ := bind_ok.1 h
    have t1 : s.tick ≤ s1.tick := hc _ _ _ _ _ _ _ _ _ _ hch
    dsimp only at h ⊢
    have hle : s1.tick ≤ r.st.tick := by
      have h' := h
      split at h'
      · split at h'
        · obtain ⟨kt, _, h'⟩ := bind_ok.1 h'
          simp only [pure_ok] at h'; subst h'; exact Nat.le_refl _
        · simp only [pure_ok] at h'; subst h'; exact Nat.le_refl _
      · obtain ⟨⟨a2, l2, s2⟩, hi2, h'⟩ := bind_ok.1 h'
        have a1 : s1.tick ≤ s2.tick := improve_frame F hi2
        have a2 : s2.tick ≤ (pollAfterMove env s2).2.tick := pollAfterMove_frame F s2
        dsimp only at h'
        split at h'
        · simp only [pure_ok] at h'; subst h'; exact Nat.le_trans a1 a2
        · have a3 : (pollAfterMove env s2).2.tick ≤ r.st.tick := abLoop_frame F hc _ _ _ _ _ _ _ _ _ _ h'
          omega
    refine bind_ok.2 ⟨(v, sl, s1), hl _ _ _ _ _ _ _ _ _ _ hch (ag.mono (Nat.le_refl _) hle), ?_⟩
    dsimp only
    split at h
    · rename_i hb; rw [if_pos hb]; exact h
    rename_i hb
    rw [if_neg hb]
    obtain ⟨⟨a2, l2, s2⟩, hi2, h⟩ := bind_ok.1 h
    refine bind_ok.2 ⟨(a2, l2, s2), hi2, ?_⟩
    have a1 : s1.tick ≤ s2.tick := improve_frame F hi2
    have a2 : s2.tick ≤ (pollAfterMove env s2).2.tick := pollAfterMove_frame F s2
    dsimp only at h ⊢
    have a3 : (pollAfterMove env s2).2.tick ≤ r.st.tick := by
      have h' := h
      split at h'
      · simp only [pure_ok] at h'; subst h'; exact Nat.le_refl _
      · exact abLoop_frame F hc _ _ _ _ _ _ _ _ _ _ h'
    rw [pollAfterMove_local (ag.mono (by omega) a3)]
    split at h
    · rename_i hbrk; rw [if_pos hbrk]; exact h
    · rename_i hbrk
      rw [if_neg hbrk]
      exact ih _ _ _ _ _ h (ag.mono (by omega) (Nat.le_refl _))

theorem alphaBeta_local {env env' : Env} (qfuel rem : Nat) :
    NodeLocal env env' (alphaBeta env qfuel rem) (alphaBeta env' qfuel rem) := by
  induction rem with
  | zero =>
    intro p idx d a b l s v l' s' h ag
    simp only [alphaBeta] at h ⊢
    obtain ⟨x, hx, h⟩ := bind_ok.1 h
    exact bind_ok.2 ⟨x, hx, quiescence_local qfuel _ _ _ _ _ _ _ _ _ _ h ag⟩
  | succ rem ih =>
    intro p idx d a b l s v l' s' h ag
    simp only [alphaBeta] at h ⊢
    obtain ⟨subLen, hsl, h⟩ := bind_ok.1 h
    refine bind_ok.2 ⟨subLen, hsl, ?_⟩
    obtain ⟨ms, hms, h⟩ := bind_ok.1 h
    refine bind_ok.2 ⟨ms, hms, ?_⟩
    split at h
    · rename_i he; rw [if_pos he]; exact h
    rename_i he
    rw [if_neg he]
    obtain ⟨r, hr, h⟩ := bind_ok.1 h
    have hst : r.st = s' := by simp only [pure_ok, Prod.mk.injEq] at h; exact h.2.2
    refine bind_ok.2 ⟨r, ?_, h⟩
    rw [ag.sortFn]
    exact abLoop_local ih (alphaBeta_frame (tickLe_rel env) qfuel rem) _ _ _ _ _ _ _ _ _ _ hr
      (ag.mono (Nat.le_refl _) (by rw [hst]; exact Nat.le_refl _))

theorem rootImprove_local {env env' : Env} {target s subLen mv score alpha curLen a l s'}
    (h : rootImprove env target s subLen mv score alpha curLen = .ok (a, l, s'))
    (ag : EnvAgree env env' s.tick s'.tick) :
    rootImprove env' target s subLen mv score alpha curLen = .ok (a, l, s') := by
  unfold rootImprove at h ⊢
  split at h
  · rename_i hs
    rw [if_pos hs]
    obtain ⟨⟨s2, cl⟩, hu, h⟩ := bind_ok.1 h
    refine bind_ok.2 ⟨(s2, cl), hu, ?_⟩
    obtain ⟨s3, hp, h⟩ := bind_ok.1 h
    have hs3 : s3 = s' := by simp only [pure_ok, Prod.mk.injEq] at h; exact h.2.2
    subst hs3
    refine bind_ok.2 ⟨s3, ?_, h⟩
    have a1 : s.tick ≤ s2.tick := updateBestLine_frame (tickLe_rel env) hu
    dsimp only at hp ⊢
    have a2 : s2.consult.tick ≤ s3.tick := by
      have hp' := hp
      unfold rootPrint at hp'
      split at hp'
      · split at hp'
        · exact absurd hp' (by simp [throw_ok])
        · simp only [pure_ok] at hp'; subst hp'; exact Nat.le_refl _
      · simp only [pure_ok] at hp'; subst hp'; exact Nat.le_refl _
    simp only [SS.consult_tick] at a2
    unfold rootPrint at hp ⊢
    simp only [SS.consult_tick, Nat.add_sub_cancel] at hp ⊢
    rw [ag.gateOpen s2.tick a1 (by omega)]
    exact hp
  · rename_i hs
    rw [if_neg hs]; exact h

theorem rootStop_local {env env' : Env} {s : SS} {lo hi} (ag : EnvAgree env env' lo hi) (h1 : lo ≤ s.tick)
    (h2 : s.tick < hi) : rootStop env' s = rootStop env s := by
  unfold rootStop
  simp only [SS.consult_tick, Nat.add_sub_cancel]
  rw [ag.stopAt _ h1 h2]

theorem rootStop_tick (env : Env) (s : SS) : (rootStop env s).tick = s.tick + 1 := by
  unfold rootStop
  dsimp only
  split <;> rfl

theorem rootLoop_local {env env' : Env} {child child' : NodeFn} (hl : NodeLocal env env' child child')
    (hc : NodeFrame TickLe child) (p : Position) (target : Nat) :
    ∀ (ms : List RMove) (alpha : Int) (curLen subLen : Nat) (s : SS) (r : LoopOut),
      rootLoop env child p target ms alpha curLen subLen s = .ok r →
      EnvAgree env env' s.tick r.st.tick →
      rootLoop env' child' p target ms alpha curLen subLen s = .ok r := by
  intro ms
  induction ms with
  | nil => intro alpha curLen subLen s r h _; simpa only [rootLoop] using h
  | cons mv rest ih =>
    intro alpha curLen subLen s r h ag
    have F := tickLe_rel env
    rw [rootLoop_cons_eq] at h ⊢
    split at h
    · rename_i hi; rw [if_pos hi]; exact h
    rename_i hi
    rw [if_neg hi]
    split at h
    · exact absurd h (by simp [throw_ok])
    rename_i hcap
    rw [if_neg (by rw [ag.stackCap]; exact hcap)]
    obtain ⟨mk, hmk, h⟩ := bind_ok.1 h
    refine bind_ok.2 ⟨mk, hmk, ?_⟩
    split at h
    · exact absurd h (by simp [throw_ok])
    rename_i hleg
    rw [if_neg hleg]
    obtain ⟨⟨v, sl, s1⟩, hch, h⟩ := bind_ok.1 h
    have t1 : s.tick ≤ s1.tick := hc _ _ _ _ _ _ _ _ _ _ hch
    obtain ⟨⟨a2, l2, s2⟩, hi2, h⟩ := bind_ok.1 h
    have t2 : s1.tick ≤ s2.tick := rootImprove_frame F hi2
    simp only [SS.consult_tick, Nat.add_sub_cancel] at h
    have hle : s2.tick ≤ r.st.tick ∧ (¬ s2.interrupted = true → s2.tick < r.st.tick) ∧
        (¬ s2.interrupted = true → ¬ env.timeUp s2.tick = true → ¬ nextMoveWins (-v) = true →
          s2.tick + 2 ≤ r.st.tick) := by
      have h' := h
      split at h'
      · rename_i hi'
        simp only [pure_ok] at h'; subst h'
        exact ⟨Nat.le_refl _, fun hn => absurd hi' hn, fun hn => absurd hi' hn⟩
      split at h'
      · rename_i _ hto
        simp only [pure_ok] at h'; subst h'
        exact ⟨Nat.le_succ _, fun _ => Nat.lt_succ_self _, fun _ hn => absurd hto hn⟩
      split at h'
      · rename_i _ _ hw
        simp only [pure_ok] at h'; subst h'
        exact ⟨Nat.le_succ _, fun _ => Nat.lt_succ_self _, fun _ _ hn => absurd hw hn⟩
      · have a3 : (rootStop env s2.consult).tick ≤ r.st.tick := rootLoop_frame F hc _ _ _ _ _ _ _ _ h'
        rw [rootStop_tick, SS.consult_tick] at a3
        exact ⟨by omega, fun _ => by omega, fun _ _ _ => a3⟩
    refine bind_ok.2 ⟨(v, sl, s1), hl _ _ _ _ _ _ _ _ _ _ hch (ag.mono (Nat.le_refl _) (by omega)), ?_⟩
    refine bind_ok.2 ⟨(a2, l2, s2), rootImprove_local hi2 (ag.mono t1 hle.1), ?_⟩
    simp only [SS.consult_tick, Nat.add_sub_cancel]
    split at h
    · rename_i hi'; rw [if_pos hi']; exact h
    rename_i hi'
    rw [if_neg hi', ag.timeUp s2.tick (by omega) (hle.2.1 hi')]
    split at h
    · rename_i hto; rw [if_pos hto]; exact h
    rename_i hto
    rw [if_neg hto]
    split at h
    · rename_i hw; rw [if_pos hw]; exact h
    rename_i hw
    rw [if_neg hw]
    have a3 := hle.2.2 hi' hto hw
    rw [rootStop_local (s := s2.consult) ag (by rw [SS.consult_tick]; omega) (by rw [SS.consult_tick]; omega)]
    exact ih _ _ _ _ _ h (ag.mono (by rw [rootStop_tick, SS.consult_tick]; omega) (Nat.le_refl _))

theorem startAlphaBeta_local {env env' : Env} {qfuel p target curLen s v one l s'}
    (h : startAlphaBeta env qfuel p target curLen s = .ok (v, one, l, s'))
    (ag : EnvAgree env env' s.tick s'.tick) :
    startAlphaBeta env' qfuel p target curLen s = .ok (v, one, l, s') := by
  simp only [startAlphaBeta] at h ⊢
  obtain ⟨subLen, hsl, h⟩ := bind_ok.1 h
  refine bind_ok.2 ⟨subLen, hsl, ?_⟩
  obtain ⟨ms, hms, h⟩ := bind_ok.1 h
  refine bind_ok.2 ⟨ms, hms, ?_⟩
  split at h
  · rename_i he; rw [if_pos he]; exact h
  rename_i he
  rw [if_neg he]
  obtain ⟨r, hr, h⟩ := bind_ok.1 h
  have hst : r.st = s' := by simp only [pure_ok, Prod.mk.injEq] at h; exact h.2.2.2
  rw [ag.sortFn]
  refine bind_ok.2 ⟨r, ?_, h⟩
  exact rootLoop_local (alphaBeta_local qfuel _) (alphaBeta_frame (tickLe_rel env) qfuel _) _ _ _ _ _ _ _ _ hr
    (ag.mono (Nat.le_refl _) (by rw [hst]; exact Nat.le_refl _))

theorem deepenLoop_tick {env qfuel p maxDepth} :
    ∀ (n cur : Nat) (best : Int) (done len0 : Nat) (s : SS) (best' : Int) (done' : Nat) (s' : SS),
      deepenLoop env qfuel p maxDepth n cur best done len0 s = .ok (best', done', s') → s.tick ≤ s'.tick := by
  intro n cur best done len0 s best' done' s' h
  obtain ⟨_, _, _, t, _⟩ := deepenLoop_spec _ _ _ _ _ _ _ _ _ _ _ _ _ h
  exact t

theorem deepenLoop_local {env env' : Env} {qfuel : Nat} {p : Position} {maxDepth : Nat} :
    ∀ (n cur : Nat) (best : Int) (done len0 : Nat) (s : SS) (best' : Int) (done' : Nat) (s' : SS),
      deepenLoop env qfuel p maxDepth n cur best done len0 s = .ok (best', done', s') →
      EnvAgree env env' s.tick s'.tick →
      deepenLoop env' qfuel p maxDepth n cur best done len0 s = .ok (best', done', s') := by
  intro n
  induction n with
  | zero => intro cur best done len0 s best' done' s' h _; simpa only [deepenLoop] using h
  | succ n ih =>
    intro cur best done len0 s best' done' s' h ag
    rw [deepenLoop_succ_eq] at h ⊢
    split at h
    · rename_i hc; rw [if_pos hc]; exact h
    rename_i hc
    rw [if_neg hc]
    obtain ⟨⟨score, one, l1, s1⟩, hsab, h⟩ := bind_ok.1 h
    have t1 : s.tick ≤ s1.tick := (startAlphaBeta_searchFrame hsab).tick
    simp only [SS.consult_tick, Nat.add_sub_cancel] at h
    have hle : s1.tick + 1 ≤ s'.tick := by
      have h' := h
      split at h'
      · simp only [pure_ok, Prod.mk.injEq] at h'; rw [← h'.2.2]; exact Nat.le_refl _
      split at h'
      · simp only [pure_ok, Prod.mk.injEq] at h'; rw [← h'.2.2]; exact Nat.le_refl _
      obtain ⟨s3, hp, h'⟩ := bind_ok.1 h'
      obtain ⟨_, rfl⟩ := printInfoAfterDepth_ok hp
      split at h'
      · simp only [pure_ok, Prod.mk.injEq] at h'; rw [← h'.2.2]; exact Nat.le_refl _
      split at h'
      · simp only [pure_ok, Prod.mk.injEq] at h'; rw [← h'.2.2]; exact Nat.le_refl _
      · exact deepenLoop_tick _ _ _ _ _ _ _ _ _ h'
    refine bind_ok.2 ⟨(score, one, l1, s1), startAlphaBeta_local hsab (ag.mono (Nat.le_refl _) (by omega)), ?_⟩
    simp only [SS.consult_tick, Nat.add_sub_cancel]
    rw [ag.timeUp s1.tick t1 (by omega)]
    split at h
    · rename_i hto; rw [if_pos hto]; exact h
    rename_i hto
    rw [if_neg hto]
    split at h
    · rename_i hi; rw [if_pos hi]; exact h
    rename_i hi
    rw [if_neg hi]
    obtain ⟨s3, hp, h⟩ := bind_ok.1 h
    refine bind_ok.2 ⟨s3, hp, ?_⟩
    obtain ⟨_, rfl⟩ := printInfoAfterDepth_ok hp
    split at h
    · rename_i hm; rw [if_pos hm]; exact h
    rename_i hm
    rw [if_neg hm]
    split at h
    · rename_i ho; rw [if_pos ho]; exact h
    rename_i ho
    rw [if_neg ho]
    exact ih _ _ _ _ _ _ _ _ h (ag.mono (by show s.tick ≤ s1.tick + 1; omega) (Nat.le_refl _))

theorem deepenFrom_local {env env' : Env} {qfuel p maxDepth score one len0 s best done s'}
    (h : deepenFrom env qfuel p maxDepth score one len0 s = .ok (best, done, s'))
    (ag : EnvAgree env env' (s.tick - 1) s'.tick) (hpos : 0 < s.tick) :
    deepenFrom env' qfuel p maxDepth score one len0 s = .ok (best, done, s') := by
  unfold deepenFrom at h ⊢
  have hle : s.tick ≤ s'.tick := by
    have h' := h
    split at h'
    · exact deepenLoop_tick _ _ _ _ _ _ _ _ _ h'
    · simp only [pure_ok, Prod.mk.injEq] at h'; rw [← h'.2.2]; exact Nat.le_refl _
  rw [ag.timeUp (s.tick - 1) (Nat.le_refl _) (by omega)]
  split at h
  · rename_i hc
    rw [if_pos hc]
    exact deepenLoop_local _ _ _ _ _ _ _ _ _ h (ag.mono (by omega) (Nat.le_refl _))
  · rename_i hc
    rw [if_neg hc]; exact h

/-- **Oracle locality**: a successful run of `iterDeep` is reproduced under any `env'` with the same static
    parameters whose oracles agree with `env`'s on the consultations the run made (`t < s.tick`). -/
theorem iterDeep_local {env env' : Env} {qfuel p maxDepth killers rows len0 s}
    (h : iterDeep env qfuel p maxDepth killers rows len0 = .ok s) (ag : EnvAgree env env' 0 s.tick) :
    iterDeep env' qfuel p maxDepth killers rows len0 = .ok s := by
  rw [iterDeep_eq] at h ⊢
  obtain ⟨⟨score, one, l, s1⟩, hsab, h⟩ := bind_ok.1 h
  dsimp only at h
  have hle : s1.tick ≤ s.tick := by
    have h' := h
    split at h'
    · simp only [pure_ok] at h'; subst h'; exact Nat.le_refl _
    · obtain ⟨⟨best, done, s2⟩, hd, h'⟩ := bind_ok.1 h'
      obtain ⟨m, tl, _, rfl⟩ := announce_ok h'
      obtain ⟨_, _, _, t, _⟩ := deepenFrom_spec hd
      show s1.tick ≤ s2.tick
      have : (copyBestLine s1 l).consult.tick = s1.tick + 1 := rfl
      omega
  refine bind_ok.2 ⟨(score, one, l, s1), startAlphaBeta_local hsab (ag.mono (Nat.le_refl _) hle), ?_⟩
  dsimp only
  split at h
  · rename_i he; rw [if_pos he]; exact h
  rename_i he
  rw [if_neg he]
  obtain ⟨⟨best, done, s2⟩, hd, h⟩ := bind_ok.1 h
  refine bind_ok.2 ⟨(best, done, s2), ?_, h⟩
  obtain ⟨m, tl, _, rfl⟩ := announce_ok h
  exact deepenFrom_local hd (ag.mono (Nat.zero_le _) (Nat.le_refl _)) (Nat.succ_pos _)

/-- **Depth truncation**: if `deepenLoop` with limit `maxDepth` returns the accepted depth `D`, the same loop with
    limit `D` (and enough fuel) accepts exactly the same iterations and ends with the same score and stored line,
    at a tick not later. -/
theorem deepenLoop_truncate {env : Env} {qfuel : Nat} {p : Position} {maxDepth : Nat} :
    ∀ (n cur : Nat) (best0 : Int) (done0 len0 : Nat) (st : SS) (best : Int) (D : Nat) (s2 : SS),
      deepenLoop env qfuel p maxDepth n cur best0 done0 len0 st = .ok (best, D, s2) → done0 < cur →
      ∀ n', D + 1 - cur ≤ n' →
        ∃ sD, deepenLoop env qfuel p D n' cur best0 done0 len0 st = .ok (best, D, sD) ∧
          sD.cand = s2.cand ∧ sD.tick ≤ s2.tick := by
  intro n
  induction n with
  | zero =>
    intro cur best0 done0 len0 st best D s2 h hlt n' _
    simp only [deepenLoop, pure_ok, Prod.mk.injEq] at h
    obtain ⟨rfl, rfl, rfl⟩ := h
    refine ⟨st, ?_, rfl, Nat.le_refl _⟩
    cases n' with
    | zero => simp only [deepenLoop]; rfl
    | succ n' => rw [deepenLoop_succ_eq, if_pos hlt]; rfl
  | succ n ih =>
    intro cur best0 done0 len0 st best D s2 h hlt n' hn'
    -- the truncated loop returns at once when nothing (more) is accepted
    have stopNow : ∀ s2 : SS, D = done0 → best = best0 → s2.cand = st.cand → st.tick ≤ s2.tick →
        ∃ sD, deepenLoop env qfuel p D n' cur best0 done0 len0 st = .ok (best, D, sD) ∧
          sD.cand = s2.cand ∧ sD.tick ≤ s2.tick := by
      intro s2 hD hb hc ht
      subst hD hb
      refine ⟨st, ?_, hc.symm, ht⟩
      cases n' with
      | zero => simp only [deepenLoop]; rfl
      | succ n' => rw [deepenLoop_succ_eq, if_pos hlt]; rfl
    rw [deepenLoop_succ_eq] at h
    split at h
    · simp only [pure_ok, Prod.mk.injEq] at h
      obtain ⟨rfl, rfl, rfl⟩ := h
      exact stopNow _ rfl rfl rfl (Nat.le_refl _)
    rename_i hcur
    obtain ⟨⟨score, one, l1, s1⟩, hsab, h⟩ := bind_ok.1 h
    have hf := startAlphaBeta_searchFrame hsab
    dsimp only at h
    split at h
    · simp only [pure_ok, Prod.mk.injEq] at h
      obtain ⟨rfl, rfl, rfl⟩ := h
      exact stopNow _ rfl rfl hf.cand (Nat.le_succ_of_le hf.tick)
    rename_i hto
    split at h
    · simp only [pure_ok, Prod.mk.injEq] at h
      obtain ⟨rfl, rfl, rfl⟩ := h
      exact stopNow _ rfl rfl hf.cand (Nat.le_succ_of_le hf.tick)
    rename_i hi
    obtain ⟨s3, hp, h⟩ := bind_ok.1 h
    -- iteration `cur` is accepted, hence `cur ≤ D`
    have hD : cur ≤ D := by
      have h' := h
      split at h'
      · simp only [pure_ok, Prod.mk.injEq] at h'; rw [← h'.2.1]; exact Nat.le_refl _
      split at h'
      · simp only [pure_ok, Prod.mk.injEq] at h'; rw [← h'.2.1]; exact Nat.le_refl _
      · obtain ⟨_, _, _, _, r⟩ := deepenLoop_spec _ _ _ _ _ _ _ _ _ _ _ _ _ h'
        rcases r with ⟨_, _, hd, _⟩ | ⟨hd, _⟩ <;> omega
    obtain ⟨n'', rfl⟩ : ∃ n'', n' = n'' + 1 := ⟨n' - 1, by omega⟩
    have pre : ∀ (k : M (Int × Nat × SS)),
        ((if pliesToMate score == (cur : Int) then pure (score, cur, s3) else
          if one then pure (score, cur, s3) else
          deepenLoop env qfuel p D n'' (cur + 1) score cur l1 s3) = k) →
        deepenLoop env qfuel p D (n'' + 1) cur best0 done0 len0 st = k := by
      intro k hk
      rw [deepenLoop_succ_eq, if_neg (by omega)]
      refine Eq.trans ?_ hk
      rw [hsab]
      show (if env.timeUp (s1.consult.tick - 1) = true then _ else _) = _
      rw [if_neg hto, if_neg hi, hp]
      rfl
    split at h
    · rename_i hm
      simp only [pure_ok, Prod.mk.injEq] at h
      obtain ⟨rfl, rfl, rfl⟩ := h
      exact ⟨s3, pre _ (by rw [if_pos hm]; rfl), rfl, Nat.le_refl _⟩
    rename_i hm
    split at h
    · rename_i ho
      simp only [pure_ok, Prod.mk.injEq] at h
      obtain ⟨rfl, rfl, rfl⟩ := h
      exact ⟨s3, pre _ (by rw [if_neg hm, if_pos ho]; rfl), rfl, Nat.le_refl _⟩
    rename_i ho
    obtain ⟨sD, hrun, hc, ht⟩ := ih (cur + 1) score cur l1 s3 best D s2 h (Nat.lt_succ_self _) n'' (by omega)
    exact ⟨sD, pre _ (by rw [if_neg hm, if_neg ho]; exact hrun), hc, ht⟩

theorem announce_eq {s : SS} {m : Move} {tl : List Move} (hc : s.cand = m :: tl) (best : Int) (done : Nat) :
    announce s best done = .ok { s with out := .bestmove m :: .infoPv best done s.nodes s.cand :: s.out } := by
  unfold announce printInfo
  rw [if_neg (by rw [hc]; simp)]
  show (match s.cand with | m :: _ => _ | [] => _) = _
  rw [hc]
  rfl

/-- if `iterDeep` with limit `maxDepth` reports the accepted depth `D`, then `iterDeep` with limit `D` (same
    oracle) plays the same move with the same score and line, and ends at a tick not later -/
theorem iterDeep_truncate {env qfuel p maxDepth killers rows len0 s m best D nodes pv rest}
    (h : iterDeep env qfuel p maxDepth killers rows len0 = .ok s)
    (hout : s.out = .bestmove m :: .infoPv best D nodes pv :: rest) :
    ∃ sD nodesD restD, iterDeep env qfuel p D killers rows len0 = .ok sD ∧
      sD.out = .bestmove m :: .infoPv best D nodesD pv :: restD ∧ sD.tick ≤ s.tick := by
  obtain ⟨score, one, l, s1, hsab, hc⟩ := iterDeep_cases h
  rcases hc with ⟨_, rfl⟩ | ⟨hne, best', D', s2, m', tl, hd, hcand, rfl⟩
  · cases hout
  simp only [List.cons.injEq, Event.bestmove.injEq, Event.infoPv.injEq] at hout
  obtain ⟨rfl, ⟨rfl, rfl, rfl, rfl⟩, rfl⟩ := hout
  have hD : ∃ sD, deepenFrom env qfuel p D' score one l (copyBestLine s1 l).consult = .ok (best', D', sD) ∧
      sD.cand = s2.cand ∧ sD.tick ≤ s2.tick := by
    unfold deepenFrom at hd ⊢
    split at hd
    · rename_i hcnd
      rw [if_pos hcnd]
      obtain ⟨sD, h1, h2, h3⟩ := deepenLoop_truncate _ _ _ _ _ _ _ _ _ hd (by omega) D' (by omega)
      exact ⟨sD, h1, h2, h3⟩
    · rename_i hcnd
      rw [if_neg hcnd]
      simp only [pure_ok, Prod.mk.injEq] at hd
      obtain ⟨rfl, rfl, rfl⟩ := hd
      exact ⟨_, rfl, rfl, Nat.le_refl _⟩
  obtain ⟨sD, hdD, hcD, htD⟩ := hD
  have hcD' : sD.cand = m' :: tl := hcD.trans hcand
  refine ⟨{ sD with out := .bestmove m' :: .infoPv best' D' sD.nodes sD.cand :: sD.out }, sD.nodes, sD.out, ?_, ?_, htD⟩
  · rw [iterDeep_eq, hsab]
    show (if (copyBestLine s1 l).cand.isEmpty = true then _ else _) = _
    rw [if_neg (by intro he; exact hne (List.isEmpty_iff.1 he))]
    show (deepenFrom env qfuel p D' score one l (copyBestLine s1 l).consult >>= _) = _
    rw [hdD]
    exact announce_eq hcD' _ _
  · show _ :: _ :: sD.out = _
    rw [hcD, hcand]

theorem deepenLoop_past {env : Env} {qfuel : Nat} {p : Position} {maxDepth n cur : Nat} {best : Int}
    {done len0 : Nat} {s : SS} (h : maxDepth < cur) :
    deepenLoop env qfuel p maxDepth n cur best done len0 s = pure (best, done, s) := by
  cases n with
  | zero => simp only [deepenLoop]
  | succ n => rw [deepenLoop_succ_eq, if_pos h]

/-- in a run of `deepenLoop` with limit `D` that accepted iteration `D`, the last consultation is the acceptance
    check of iteration `D`, and the clock had not run out there -/
theorem deepenLoop_last_check {env : Env} {qfuel : Nat} {p : Position} {D : Nat} :
    ∀ (n cur : Nat) (best0 : Int) (done0 len0 : Nat) (st : SS) (best : Int) (sD : SS),
      deepenLoop env qfuel p D n cur best0 done0 len0 st = .ok (best, D, sD) → done0 < cur → cur ≤ D →
      st.tick < sD.tick ∧ env.timeUp (sD.tick - 1) = false := by
  intro n
  induction n with
  | zero =>
    intro cur best0 done0 len0 st best sD h hlt hle
    simp only [deepenLoop, pure_ok, Prod.mk.injEq] at h
    omega
  | succ n ih =>
    intro cur best0 done0 len0 st best sD h hlt hle
    rw [deepenLoop_succ_eq, if_neg (by omega)] at h
    obtain ⟨⟨score, one, l1, s1⟩, hsab, h⟩ := bind_ok.1 h
    have t1 : st.tick ≤ s1.tick := (startAlphaBeta_searchFrame hsab).tick
    simp only [SS.consult_tick, Nat.add_sub_cancel] at h
    split at h
    · simp only [pure_ok, Prod.mk.injEq] at h; omega
    rename_i hto
    split at h
    · simp only [pure_ok, Prod.mk.injEq] at h; omega
    obtain ⟨s3, hp, h⟩ := bind_ok.1 h
    obtain ⟨_, rfl⟩ := printInfoAfterDepth_ok hp
    have here : ∀ sD : SS, sD.tick = s1.tick + 1 → st.tick < sD.tick ∧ env.timeUp (sD.tick - 1) = false := by
      intro sD hs
      rw [hs, Nat.add_sub_cancel]
      exact ⟨by omega, by simpa using hto⟩
    split at h
    · simp only [pure_ok, Prod.mk.injEq] at h; rw [← h.2.2]; exact here _ rfl
    split at h
    · simp only [pure_ok, Prod.mk.injEq] at h; rw [← h.2.2]; exact here _ rfl
    by_cases hc : cur + 1 ≤ D
    · obtain ⟨a, b⟩ := ih _ _ _ _ _ _ _ h (Nat.lt_succ_self _) hc
      refine ⟨?_, b⟩
      have : st.tick ≤ s1.tick + 1 := by omega
      exact Nat.lt_of_le_of_lt this a
    · rw [deepenLoop_past (by omega)] at h
      simp only [pure_ok, Prod.mk.injEq] at h; rw [← h.2.2]; exact here _ rfl

theorem iterDeep_last_check {env qfuel p D killers rows len0 sD m best nodes pv rest}
    (h : iterDeep env qfuel p D killers rows len0 = .ok sD)
    (hout : sD.out = .bestmove m :: .infoPv best D nodes pv :: rest) (hD : 2 ≤ D) :
    env.timeUp (sD.tick - 1) = false := by
  obtain ⟨score, one, l, s1, hsab, hc⟩ := iterDeep_cases h
  rcases hc with ⟨_, rfl⟩ | ⟨hne, best', D', s2, m', tl, hd, hcand, rfl⟩
  · cases hout
  simp only [List.cons.injEq, Event.bestmove.injEq, Event.infoPv.injEq] at hout
  obtain ⟨rfl, ⟨rfl, rfl, rfl, rfl⟩, rfl⟩ := hout
  unfold deepenFrom at hd
  split at hd
  · exact (deepenLoop_last_check _ _ _ _ _ _ _ _ hd (by omega) hD).2
  · simp only [pure_ok, Prod.mk.injEq] at hd
    omega

/-- the same engine configuration with a clock that never runs out and a stop channel that stays empty -/
def Env.quieted (env : Env) : Env := { env with timeUp := fun _ => false, stopAt := fun _ => false }

theorem Env.quieted_quiet (env : Env) : env.quieted.Quiet := fun _ => ⟨rfl, rfl⟩

theorem envAgree_quieted {env : Env} {hi : Nat} (h : ∀ t, t < hi → env.timeUp t = false ∧ env.stopAt t = false) :
    EnvAgree env env.quieted 0 hi where
  blend := rfl
  sortFn := rfl
  logInterval := rfl
  lazy := rfl
  stackCap := rfl
  timeUp t _ ht := (h t ht).1.symm
  stopAt t _ ht := (h t ht).2.symm
  gateOpen _ _ _ := rfl

end Magog.Model
