import Magog.Lemmas.MirrorAttack

/-! C15 helpers, part 6: the stages of `makeMove` commute with the colour flip (up to the panic
    payload: `kill` reports the square in its message). -/

set_option linter.unusedSimpArgs false

namespace Magog.Mir
open Magog Magog.Model Magog.Count Magog.Geo Magog.Atk

/-! ### colour parameters -/

def colBit (w : Bool) : Nat := if w then WhiteBit else BlackBit
def homeRank (w : Bool) : Nat := if w then Gen.Rank1 else Gen.Rank8
def flagK (w : Bool) : Nat := if w then FWK else FBK
def flagQ (w : Bool) : Nat := if w then FWQ else FBQ

/-- `makeMove` with the colour of the mover as a parameter -/
def makeMoveW (white : Bool) (p : Position) (m : Move) : M (Position × Bool) := do
  let (board, flags, cur) ← mmMover p.board p.flags (p.side white) m (colBit white) (homeRank white)
    (flagK white) (flagQ white)
  let flags := mmCorners flags m (homeRank white) (homeRank !white) (flagK white) (flagQ white)
    (flagK !white) (flagQ !white)
  let en ← mmCapture board (p.side (!white)) m (colBit !white)
  let (board, en) ← mmBoard board en m p.ep (colBit white)
  let flags := flags ^^^ FWhiteTurn
  let p' : Position :=
    if white then
      { board, whitePieces := cur.pieces, whitePawns := cur.pawns, whiteKing := cur.king,
        blackPieces := en.pieces, blackPawns := en.pawns, blackKing := en.king,
        flags, ep := m.ep, ply := wrap16 (p.ply + 1) }
    else
      { board, blackPieces := cur.pieces, blackPawns := cur.pawns, blackKing := cur.king,
        whitePieces := en.pieces, whitePawns := en.pawns, whiteKing := en.king,
        flags, ep := m.ep, ply := wrap16 (p.ply + 1) }
  let chk ← isUnderCheck board en cur.king
  pure (p', !chk)

theorem makeMove_eq (p : Position) (m : Move) : makeMove p m = makeMoveW (whiteTurn p) p m := by
  unfold makeMove makeMoveW
  cases whiteTurn p <;> rfl

/-! ### list bookkeeping -/

theorem idxOf?_map_mirror (l : List Nat) (sq : Nat) :
    (l.map mirrorSq).idxOf? (mirrorSq sq) = l.idxOf? sq := by
  induction l with
  | nil => rfl
  | cons x xs ih =>
    simp only [List.map_cons, List.idxOf?_cons, ih]
    by_cases h : x = sq
    · simp [h]
    · have : mirrorSq x ≠ mirrorSq sq := fun hh => h (mirrorSq_inj.1 hh)
      simp [h, this]

theorem swapRemove_map (l : List Nat) {i : Nat} (hi : i < l.length) :
    ((l.map mirrorSq).set i ((l.map mirrorSq).getLastD 0)).dropLast
      = ((l.set i (l.getLastD 0)).dropLast).map mirrorSq := by
  have hne : l ≠ [] := by intro h; subst h; simp at hi
  have : (l.map mirrorSq).getLastD 0 = mirrorSq (l.getLastD 0) := by
    rw [List.getLastD_eq_getLast?, List.getLastD_eq_getLast?, List.getLast?_map]
    cases hl : l.getLast? with
    | none => simp [List.getLast?_eq_none_iff] at hl; exact absurd hl hne
    | some v => rfl
  rw [this, List.map_dropLast, List.map_set]

theorem kill_mirror (l : List Nat) (sq : Nat) (what : String) :
    okVal (kill (l.map mirrorSq) (mirrorSq sq) what) = (okVal (kill l sq what)).map (List.map mirrorSq) := by
  unfold kill
  rw [idxOf?_map_mirror]
  cases h : l.idxOf? sq with
  | none => rfl
  | some i =>
    obtain ⟨hi, _⟩ := List.idxOf?_eq_some_iff.1 h
    simp only [okVal_pure, Option.map_some, swapRemove_map l hi]

theorem replaceFirst_mirror (l : List Nat) (a b : Nat) :
    replaceFirst (l.map mirrorSq) (mirrorSq a) (mirrorSq b) = (replaceFirst l a b).map mirrorSq := by
  unfold replaceFirst
  rw [idxOf?_map_mirror]
  cases l.idxOf? a with
  | none => rfl
  | some i => simp only [List.map_set]

theorem appendCap_mirror (l : List Nat) (cap sq : Nat) (what : String) :
    okVal (appendCap (l.map mirrorSq) cap (mirrorSq sq) what)
      = (okVal (appendCap l cap sq what)).map (List.map mirrorSq) := by
  unfold appendCap
  simp only [List.length_map]
  split <;> simp

theorem kill_subset {l l' : List Nat} {sq : Nat} {what : String} (h : kill l sq what = .ok l') :
    ∀ x ∈ l', x ∈ l := by
  unfold kill at h
  split at h
  · rename_i i hi
    simp only [pure_eq_ok, Except.ok.injEq] at h
    subst h
    intro x hx
    have hx' := List.dropLast_subset _ hx
    rcases List.mem_or_eq_of_mem_set hx' with h1 | h1
    · exact h1
    · obtain ⟨hil, _⟩ := List.idxOf?_eq_some_iff.1 hi
      have hne : l ≠ [] := by intro hh; subst hh; simp at hil
      rw [h1, List.getLastD_eq_getLast?, List.getLast?_eq_some_getLast hne]
      exact List.getLast_mem hne
  · simp [throw_eq_error] at h

/-! ### constants under the flip -/

theorem const_fin (w : Bool) :
    mirrorPiece (Pawn ||| colBit w) = Pawn ||| colBit (!w) ∧
    mirrorPiece (King ||| colBit w) = King ||| colBit (!w) ∧
    mirrorPiece (Rook ||| colBit w) = Rook ||| colBit (!w) ∧
    Pawn ||| colBit w < 256 ∧ King ||| colBit w < 256 ∧ Rook ||| colBit w < 256 ∧
    mirrorSq ((Gen.A + homeRank w) % 256) = (Gen.A + homeRank (!w)) % 256 ∧
    mirrorSq ((Gen.D + homeRank w) % 256) = (Gen.D + homeRank (!w)) % 256 ∧
    mirrorSq ((Gen.H + homeRank w) % 256) = (Gen.H + homeRank (!w)) % 256 ∧
    mirrorSq ((Gen.F + homeRank w) % 256) = (Gen.F + homeRank (!w)) % 256 ∧
    mirrorSq (homeRank w) = homeRank (!w) := by
  cases w <;> decide

theorem promo_fin : ∀ k < 64, ∀ w : Bool,
    mirrorPiece (k ||| colBit w) = k ||| colBit (!w) ∧ k ||| colBit w < 256 ∧ oneColour (k ||| colBit w) = true := by
  decide +kernel

/-! ### the stages -/

theorem mirrorBoard_set0 {b : Array Nat} (hb : b.size = 128) (i : Nat) :
    mirrorBoard (b.setIfInBounds i 0) = (mirrorBoard b).setIfInBounds (mirrorSq i) 0 := by
  rw [mirrorBoard_set hb, mirrorPiece_zero]

theorem size_set128 {b : Array Nat} (hb : b.size = 128) (i v : Nat) : (b.setIfInBounds i v).size = 128 := by
  simpa using hb

def mirror3 (r : Array Nat × Nat × Side) : Array Nat × Nat × Side :=
  (mirrorBoard r.1, mirrorFlags r.2.1, mirrorSide r.2.2)

theorem mmMover_mirror (w : Bool) {b : Array Nat} (hb : b.size = 128)
    (hbytes : ∀ (i x : Nat), b[i]? = some x → x < 256) {f : Nat} (hf : f < 256) (cur : Side) (m : Move) :
    okVal (mmMover (mirrorBoard b) (mirrorFlags f) (mirrorSide cur) (mirrorMove m) (colBit (!w))
        (homeRank (!w)) (flagK (!w)) (flagQ (!w)))
      = (okVal (mmMover b f cur m (colBit w) (homeRank w) (flagK w) (flagQ w))).map mirror3 := by
  obtain ⟨cP, _, cR, cP', _, cR', cA, cD, cH, cF, _⟩ := const_fin w
  have hfl : mirrorFlags (clearBits f (flagK w ||| flagQ w)) = clearBits (mirrorFlags f) (flagK (!w) ||| flagQ (!w)) := by
    have := flags_fin f hf
    cases w
    · exact this.2.2.2.2.2.2.2.2.2.2.2.2.2.1
    · exact this.2.2.2.2.2.2.2.2.2.2.2.2.1
  unfold mmMover
  simp only [okVal_bind, okVal_bget, mirrorMove, getElem?_mirrorBoard hb]
  cases hfp : b[m.frm]? with
  | none => rfl
  | some fp =>
    have hfp256 := hbytes _ _ hfp
    simp only [Option.map_some, Option.bind_some]
    rw [← cP, mirrorPiece_beq hfp256 cP']
    by_cases h1 : (fp == Pawn ||| colBit w) = true
    · simp only [h1, if_true]
      by_cases h2 : (m.promo == 0) = true
      · simp only [h2, if_true, okVal_pure, Option.map_some, mirror3, mirrorSide, replaceFirst_mirror]
      · simp only [h2, Bool.false_eq_true, if_false, mirrorSide, idxOf?_map_mirror]
        cases hi : cur.pawns.idxOf? m.frm with
        | none => simp only [okVal_pure, Option.map_some, mirror3, mirrorSide]
        | some i =>
          obtain ⟨hil, _⟩ := List.idxOf?_eq_some_iff.1 hi
          simp only [okVal_bind, appendCap_mirror, okVal_pure, swapRemove_map _ hil]
          cases okVal (appendCap cur.pieces pieceCap m.to "pieceList") with
          | none => rfl
          | some pcs => simp only [Option.map_some, Option.bind_some, mirror3, mirrorSide]
    · simp only [h1, Bool.false_eq_true, if_false]
      have hk : (mirrorSq m.frm == (mirrorSide cur).king) = (m.frm == cur.king) := by
        rw [Bool.eq_iff_iff]; simp [mirrorSide, mirrorSq_inj]
      simp only [hk]
      by_cases h2 : (m.frm == cur.king) = true
      · simp only [h2, if_true, fileOf_mirrorSq]
        by_cases h3 : (fileOf m.frm == Gen.E) = true
        · simp only [h3, if_true]
          by_cases h4 : (fileOf m.to == Gen.C) = true
          · simp only [h4, if_true, okVal_bind, okVal_bset, size_mirrorBoard, ← cA, ← cD, ← cR,
              mirrorSq_lt_128_iff, hb, okVal_pure]
            by_cases h5 : (Gen.A + homeRank w) % 256 < 128
            · simp only [h5, if_true, Option.bind_some, Array.size_setIfInBounds, size_mirrorBoard,
                mirrorSq_lt_128_iff, hb]
              by_cases h6 : (Gen.D + homeRank w) % 256 < 128
              · simp only [h6, if_true, Option.bind_some, Option.map_some, mirror3, mirrorSide, ← hfl,
                  replaceFirst_mirror, mirrorBoard_set (size_set128 hb _ _), mirrorBoard_set0 hb]
              · simp [h6]
            · simp [h5]
          · simp only [h4, Bool.false_eq_true, if_false]
            by_cases h4' : (fileOf m.to == Gen.G) = true
            · simp only [h4', if_true, okVal_bind, okVal_bset, size_mirrorBoard, ← cH, ← cF, ← cR,
                mirrorSq_lt_128_iff, hb, okVal_pure]
              by_cases h5 : (Gen.H + homeRank w) % 256 < 128
              · simp only [h5, if_true, Option.bind_some, Array.size_setIfInBounds, size_mirrorBoard,
                  mirrorSq_lt_128_iff, hb]
                by_cases h6 : (Gen.F + homeRank w) % 256 < 128
                · simp only [h6, if_true, Option.bind_some, Option.map_some, mirror3, mirrorSide, ← hfl,
                    replaceFirst_mirror, mirrorBoard_set (size_set128 hb _ _), mirrorBoard_set0 hb]
                · simp [h6]
              · simp [h5]
            · simp only [h4', Bool.false_eq_true, if_false, okVal_pure, Option.map_some, mirror3, mirrorSide, hfl]
        · simp only [h3, Bool.false_eq_true, if_false, okVal_pure, Option.map_some, mirror3, mirrorSide, hfl]
      · simp only [h2, Bool.false_eq_true, if_false, okVal_pure, Option.map_some, mirror3, mirrorSide,
          replaceFirst_mirror]

/-! #### corner flags -/

theorem clearBits_lt (x : Nat) {m : Nat} (hm : m < 256) : clearBits x m < 256 := by
  unfold clearBits
  exact Nat.lt_of_le_of_lt Nat.and_le_right (Nat.xor_lt_two_pow (n := 8) (by decide) hm)

theorem flagK_lt (w : Bool) : flagK w < 256 := by cases w <;> decide
theorem flagQ_lt (w : Bool) : flagQ w < 256 := by cases w <;> decide

theorem mirrorFlags_clearK (w : Bool) {g : Nat} (hg : g < 256) :
    mirrorFlags (clearBits g (flagK w)) = clearBits (mirrorFlags g) (flagK (!w)) := by
  have := flags_fin g hg
  cases w
  · exact this.2.2.2.2.2.2.2.2.2.2.1
  · exact this.2.2.2.2.2.2.2.2.1

theorem mirrorFlags_clearQ (w : Bool) {g : Nat} (hg : g < 256) :
    mirrorFlags (clearBits g (flagQ w)) = clearBits (mirrorFlags g) (flagQ (!w)) := by
  have := flags_fin g hg
  cases w
  · exact this.2.2.2.2.2.2.2.2.2.2.2.1
  · exact this.2.2.2.2.2.2.2.2.2.1

theorem rank_cond (w : Bool) (s : Nat) :
    (rankOf (mirrorSq s) == homeRank (!w)) = (rankOf s == homeRank w) := by
  rw [rankOf_mirrorSq, ← (const_fin w).2.2.2.2.2.2.2.2.2.2, Bool.eq_iff_iff]
  simp only [beq_iff_eq]
  exact mirrorSq_inj (a := rankOf s) (b := homeRank w)

theorem mmCorners_lt {f : Nat} (hf : f < 256) (m : Move) (cr er : Nat) {ck cq ek eq : Nat}
    (h1 : ck < 256) (h2 : cq < 256) (h3 : ek < 256) (h4 : eq < 256) :
    mmCorners f m cr er ck cq ek eq < 256 := by
  unfold mmCorners
  repeat' split
  all_goals first | exact clearBits_lt _ (by assumption) | exact hf

theorem mmCorners_mirror (w : Bool) {f : Nat} (hf : f < 256) (m : Move) :
    mirrorFlags (mmCorners f m (homeRank w) (homeRank (!w)) (flagK w) (flagQ w) (flagK (!w)) (flagQ (!w)))
      = mmCorners (mirrorFlags f) (mirrorMove m) (homeRank (!w)) (homeRank w) (flagK (!w)) (flagQ (!w))
          (flagK w) (flagQ w) := by
  have hr : ∀ s, (rankOf (mirrorSq s) == homeRank w) = (rankOf s == homeRank (!w)) := fun s => by
    have := rank_cond (!w) s
    simpa using this
  have hK : ∀ g, g < 256 → mirrorFlags (clearBits g (flagK (!w))) = clearBits (mirrorFlags g) (flagK w) :=
    fun g hg => by simpa using mirrorFlags_clearK (!w) hg
  have hQ : ∀ g, g < 256 → mirrorFlags (clearBits g (flagQ (!w))) = clearBits (mirrorFlags g) (flagQ w) :=
    fun g hg => by simpa using mirrorFlags_clearQ (!w) hg
  unfold mmCorners
  simp only [mirrorMove, fileOf_mirrorSq, rank_cond, hr]
  generalize (fileOf m.frm == Gen.A && rankOf m.frm == homeRank w) = c1
  generalize (fileOf m.frm == Gen.H && rankOf m.frm == homeRank w) = c2
  generalize (fileOf m.to == Gen.A && rankOf m.to == homeRank (!w)) = c3
  generalize (fileOf m.to == Gen.H && rankOf m.to == homeRank (!w)) = c4
  have l1 := flagK_lt w; have l2 := flagQ_lt w; have l3 := flagK_lt (!w); have l4 := flagQ_lt (!w)
  cases c1 <;> cases c2 <;> cases c3 <;> cases c4 <;>
    simp only [if_true, if_false, Bool.false_eq_true] <;>
    simp only [hK, hQ, mirrorFlags_clearK, mirrorFlags_clearQ, hf, clearBits_lt, l1, l2, l3, l4]

/-! #### capture -/

theorem mmCapture_mirror (w : Bool) {b : Array Nat} (hb : b.size = 128)
    (hbytes : ∀ (i x : Nat), b[i]? = some x → x < 256) (en : Side) (m : Move) :
    okVal (mmCapture (mirrorBoard b) (mirrorSide en) (mirrorMove m) (colBit (!w)))
      = (okVal (mmCapture b en m (colBit w))).map mirrorSide := by
  obtain ⟨cP, cK, _, cP', cK', _⟩ := const_fin w
  unfold mmCapture
  simp only [okVal_bind, okVal_bget, mirrorMove, getElem?_mirrorBoard hb]
  cases ht : b[m.to]? with
  | none => rfl
  | some t =>
    have ht256 := hbytes _ _ ht
    simp only [Option.map_some, Option.bind_some, bne, mirrorPiece_eq_zero ht256]
    simp only [← cP, ← cK, mirrorPiece_beq ht256 cP', mirrorPiece_beq ht256 cK']
    by_cases h0 : (t == 0) = true
    · simp only [h0, Bool.not_true, Bool.false_eq_true, if_false, okVal_pure, Option.map_some]
    · simp only [h0, Bool.not_false, if_true]
      by_cases hk : (t == King ||| colBit w) = true
      · simp only [hk, Bool.not_true, Bool.false_eq_true, if_false, okVal_pure, Option.map_some]
      · simp only [hk, Bool.not_false, if_true]
        by_cases hp : (t == Pawn ||| colBit w) = true
        · simp only [hp, if_true, okVal_bind, mirrorSide, kill_mirror, okVal_pure]
          cases okVal (kill en.pawns m.to "enemyPawns") <;> rfl
        · simp only [hp, Bool.false_eq_true, if_false, okVal_bind, mirrorSide, kill_mirror, okVal_pure]
          cases okVal (kill en.pieces m.to "enemyPieces") <;> rfl

/-! #### board update -/

theorem killSq_fin : ∀ x < 16, ∀ f < 256,
    (x + ((f &&& 0xF0) ^^^ 0x70)) % 256 = ((x + (f &&& 0xF0)) % 256) ^^^ 0x70 := by decide +kernel

theorem rankOf_mod' (x : Nat) : rankOf x = rankOf (x % 256) := by
  unfold rankOf
  have h1 : x &&& 0xF0 = (x &&& 0xF0) % 2^8 := by
    rw [Nat.mod_eq_of_lt]
    exact Nat.lt_of_le_of_lt Nat.and_le_right (by decide)
  rw [h1, Nat.and_mod_two_pow]

theorem killSq_mirror (t f : Nat) :
    (fileOf (mirrorSq t) + rankOf (mirrorSq f)) % 256 = mirrorSq ((fileOf t + rankOf f) % 256) := by
  rw [fileOf_mirrorSq, rankOf_mirrorSq, rankOf_mod' f]
  have hx : fileOf t < 16 := by
    unfold fileOf; exact Nat.lt_of_le_of_lt Nat.and_le_right (by decide)
  exact killSq_fin _ hx _ (Nat.mod_lt _ (by decide))

theorem ep_cond {ep to : Nat} (hep : ep < 128 → isValid ep = true) (hto : to < 128) :
    (mirrorEp ep == mirrorSq to) = (ep == to) := by
  rw [Bool.eq_iff_iff]
  simp only [beq_iff_eq, mirrorEp]
  by_cases hv : isValid ep = true
  · simp [hv, mirrorSq_inj]
  · have hge : ¬ ep < 128 := fun h => hv (hep h)
    simp only [hv, Bool.false_eq_true, if_false]
    constructor
    · intro h
      have := mirrorSq_lt_128 hto
      omega
    · intro h; omega

def mirror2 (r : Array Nat × Side) : Array Nat × Side := (mirrorBoard r.1, mirrorSide r.2)

theorem mmBoard_mirror (w : Bool) {b : Array Nat} (hb : b.size = 128)
    (hbytes : ∀ (i x : Nat), b[i]? = some x → x < 256) (en : Side) {m : Move} (hpromo : m.promo < 64)
    {ep : Nat} (hep : ep < 128 → isValid ep = true) :
    okVal (mmBoard (mirrorBoard b) (mirrorSide en) (mirrorMove m) (mirrorEp ep) (colBit (!w)))
      = (okVal (mmBoard b en m ep (colBit w))).map mirror2 := by
  obtain ⟨cP, _, _, cP', _⟩ := const_fin w
  obtain ⟨cPr, _⟩ := promo_fin _ hpromo w
  unfold mmBoard
  simp only [mirrorMove]
  by_cases h0 : (m.promo == 0) = true
  · simp only [h0, if_true, okVal_bind, okVal_bget, getElem?_mirrorBoard hb]
    cases hfp : b[m.frm]? with
    | none => rfl
    | some fp =>
      have hfp256 := hbytes _ _ hfp
      simp only [Option.map_some, Option.bind_some, okVal_bset, size_mirrorBoard, mirrorSq_lt_128_iff, hb]
      by_cases hto : m.to < 128
      · simp only [hto, if_true, Option.bind_some, ep_cond hep hto]
        rw [← cP, mirrorPiece_beq hfp256 cP']
        by_cases hc : (ep == m.to && fp == Pawn ||| colBit w) = true
        · simp only [hc, if_true, okVal_bind, mirrorSide, killSq_mirror, kill_mirror, okVal_bset,
            Array.size_setIfInBounds, size_mirrorBoard, mirrorSq_lt_128_iff, hb, okVal_pure]
          cases okVal (kill en.pawns ((fileOf m.to + rankOf m.frm) % 256) "enemyPawns(ep)") with
          | none => rfl
          | some pw =>
            simp only [Option.map_some, Option.bind_some]
            by_cases hks : (fileOf m.to + rankOf m.frm) % 256 < 128
            · simp only [Array.size_setIfInBounds, size_mirrorBoard, mirrorSq_lt_128_iff, hb, hks, if_true, Option.bind_some]
              by_cases hfr : m.frm < 128
              · simp only [Array.size_setIfInBounds, size_mirrorBoard, mirrorSq_lt_128_iff, hb, hfr, if_true, Option.bind_some, Option.map_some, mirror2, mirrorSide,
                  mirrorBoard_set0 (size_set128 (size_set128 hb _ _) _ _),
                  mirrorBoard_set0 (size_set128 hb _ _), mirrorBoard_set hb]
              · simp [hfr, hb, mirrorSq_lt_128_iff, Array.size_setIfInBounds]
            · simp [hks, hb, mirrorSq_lt_128_iff, Array.size_setIfInBounds]
        · simp only [hc, Bool.false_eq_true, if_false, okVal_bind, okVal_bset, Array.size_setIfInBounds,
            size_mirrorBoard, mirrorSq_lt_128_iff, hb, okVal_pure]
          by_cases hfr : m.frm < 128
          · simp only [Array.size_setIfInBounds, size_mirrorBoard, mirrorSq_lt_128_iff, hb, hfr, if_true, Option.bind_some, Option.map_some, mirror2,
              mirrorBoard_set0 (size_set128 hb _ _), mirrorBoard_set hb]
          · simp [hfr, hb, mirrorSq_lt_128_iff, Array.size_setIfInBounds]
      · simp [hto, hb, mirrorSq_lt_128_iff, Array.size_setIfInBounds]
  · simp only [h0, Bool.false_eq_true, if_false, okVal_bind, okVal_bset, Array.size_setIfInBounds,
      size_mirrorBoard, mirrorSq_lt_128_iff, hb, okVal_pure, ← cPr]
    by_cases hto : m.to < 128
    · simp only [Array.size_setIfInBounds, size_mirrorBoard, mirrorSq_lt_128_iff, hb, hto, if_true, Option.bind_some]
      by_cases hfr : m.frm < 128
      · simp only [Array.size_setIfInBounds, size_mirrorBoard, mirrorSq_lt_128_iff, hb, hfr, if_true, Option.bind_some, Option.map_some, mirror2,
          mirrorBoard_set0 (size_set128 hb _ _), mirrorBoard_set hb]
      · simp [hfr, hb, mirrorSq_lt_128_iff, Array.size_setIfInBounds]
    · simp [hto, hb, mirrorSq_lt_128_iff, Array.size_setIfInBounds]

end Magog.Mir
