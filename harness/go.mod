module verifharness

go 1.21.5

require macsmol/magog v0.0.0

replace macsmol/magog => /repo
