// extract: static fact extractor (T1). Parses the engine package and main.go of the repository given
// as argv[1] with go/parser + go/types and prints one JSON document:
//   consts   : every package-level integer constant (exact value, Go type)
//   strconsts: every package-level string constant
//   tables   : every package-level variable initialised by a composite literal of constants
//   funcs    : sha256 of the printed AST of every function (escalation only, never an alarm)
//   shape    : structural facts the model depends on that are not data (see shapeFacts)
//   shared   : static access table for C12 (package-level variables and struct fields read/written in code
//              reachable from the search goroutine entry and from the stop/isready handlers)
package main

import (
	"bytes"
	"crypto/sha256"
	"encoding/json"
	"fmt"
	"go/ast"
	"go/constant"
	"go/importer"
	"go/parser"
	"go/printer"
	"go/token"
	"go/types"
	"os"
	"path/filepath"
	"sort"
	"strings"
)

type constFact struct {
	Value string `json:"value"`
	Type  string `json:"type"`
}

type out struct {
	Consts    map[string]constFact `json:"consts"`
	StrConsts map[string]string    `json:"strconsts"`
	Tables    map[string][]string  `json:"tables"`
	Funcs     map[string]string    `json:"funcs"`
	Shape     map[string]any       `json:"shape"`
	Shared    []sharedAccess       `json:"shared"`
}

type sharedAccess struct {
	Location string `json:"location"` // "var:name" or "field:Type.name"
	Thread   string `json:"thread"`   // "search" | "stop" | "isready"
	Kind     string `json:"kind"`     // "R" | "W"
	Where    string `json:"where"`    // function name
	Sync     string `json:"sync"`     // "" | "atomic" | "chan"
}

func main() {
	repo := os.Args[1]
	fset := token.NewFileSet()
	pkgs, err := parser.ParseDir(fset, filepath.Join(repo, "engine"), func(fi os.FileInfo) bool {
		n := fi.Name()
		// the hook bodies compiled without the build tag (verif_nosync.go) are part of the package as shipped;
		// the tagged accessor/sync files are not
		return !strings.HasSuffix(n, "_test.go") && (!strings.HasPrefix(n, "verif_") || n == "verif_nosync.go")
	}, parser.ParseComments)
	if err != nil {
		fail(err)
	}
	var files []*ast.File
	var names []string
	for _, p := range pkgs {
		for n := range p.Files {
			names = append(names, n)
		}
	}
	sort.Strings(names)
	for _, p := range pkgs {
		for _, n := range names {
			if f, ok := p.Files[n]; ok {
				files = append(files, f)
			}
		}
	}
	conf := types.Config{Importer: importer.ForCompiler(fset, "source", nil)}
	info := &types.Info{
		Defs:       map[*ast.Ident]types.Object{},
		Uses:       map[*ast.Ident]types.Object{},
		Types:      map[ast.Expr]types.TypeAndValue{},
		Selections: map[*ast.SelectorExpr]*types.Selection{},
	}
	pkg, err := conf.Check("engine", fset, files, info)
	if err != nil {
		fail(err)
	}
	o := out{Consts: map[string]constFact{}, StrConsts: map[string]string{}, Tables: map[string][]string{},
		Funcs: map[string]string{}, Shape: map[string]any{}}
	for _, name := range pkg.Scope().Names() {
		if c, ok := pkg.Scope().Lookup(name).(*types.Const); ok {
			switch c.Val().Kind() {
			case constant.Int:
				o.Consts[name] = constFact{c.Val().ExactString(), c.Type().String()}
			case constant.String:
				o.StrConsts[name] = constant.StringVal(c.Val())
			}
		}
	}
	funcDecls := map[string]*ast.FuncDecl{}
	for _, f := range files {
		for _, d := range f.Decls {
			switch d := d.(type) {
			case *ast.GenDecl:
				if d.Tok != token.VAR {
					continue
				}
				for _, s := range d.Specs {
					vs := s.(*ast.ValueSpec)
					for i, nm := range vs.Names {
						if i >= len(vs.Values) {
							continue
						}
						cl, ok := vs.Values[i].(*ast.CompositeLit)
						if !ok {
							continue
						}
						vals := []string{}
						all := true
						for _, e := range cl.Elts {
							if tv, ok := info.Types[e]; ok && tv.Value != nil && tv.Value.Kind() == constant.Int {
								vals = append(vals, tv.Value.ExactString())
							} else {
								all = false
							}
						}
						if all && len(vals) > 0 {
							o.Tables[nm.Name] = vals
						}
					}
				}
			case *ast.FuncDecl:
				name := d.Name.Name
				if d.Recv != nil && len(d.Recv.List) > 0 {
					name = recvName(d.Recv.List[0].Type) + "." + name
				}
				funcDecls[name] = d
				var buf bytes.Buffer
				// print without comments and positions: formatting/comment-only edits keep the hash
				printer.Fprint(&buf, token.NewFileSet(), stripComments(d))
				o.Funcs[name] = fmt.Sprintf("%x", sha256.Sum256(buf.Bytes()))[:16]
			}
		}
	}
	shapeFacts(repo, fset, files, info, funcDecls, &o)
	sharedTable(info, funcDecls, &o)
	enc := json.NewEncoder(os.Stdout)
	enc.SetIndent("", " ")
	enc.Encode(o)
}

func fail(err error) {
	fmt.Fprintln(os.Stderr, "extract:", err)
	os.Exit(2)
}

func recvName(e ast.Expr) string {
	switch t := e.(type) {
	case *ast.StarExpr:
		return recvName(t.X)
	case *ast.Ident:
		return t.Name
	}
	return "?"
}

func stripComments(d *ast.FuncDecl) *ast.FuncDecl {
	c := *d
	c.Doc = nil
	return &c
}

func exprString(e ast.Node) string {
	var buf bytes.Buffer
	printer.Fprint(&buf, token.NewFileSet(), e)
	return buf.String()
}

// Structural facts. Each is a small, local syntactic/semantic observation; the Lean model is parametrised
// by them (Generated/Shape.lean) so that a theorem depending on one is re-checked against the source.
func shapeFacts(repo string, fset *token.FileSet, files []*ast.File, info *types.Info, fd map[string]*ast.FuncDecl, o *out) {
	// main loop: does the read loop's condition or body look at the result of scanner.Scan()?
	mainSrc, err := parser.ParseFile(fset, filepath.Join(repo, "main.go"), nil, 0)
	scanChecked := false
	quitChecked := false
	if err == nil {
		ast.Inspect(mainSrc, func(n ast.Node) bool {
			fs, ok := n.(*ast.ForStmt)
			if !ok {
				return true
			}
			cond := ""
			if fs.Cond != nil {
				cond = exprString(fs.Cond)
			}
			if !strings.Contains(exprString(fs.Body), "ParseInputLine") {
				return true
			}
			if strings.Contains(cond, "Quit") {
				quitChecked = true
			}
			if strings.Contains(cond, ".Scan()") {
				scanChecked = true
			}
			// `if !scanner.Scan() { break|return }` in the body
			ast.Inspect(fs.Body, func(m ast.Node) bool {
				if is, ok := m.(*ast.IfStmt); ok && strings.Contains(exprString(is.Cond), ".Scan()") {
					body := exprString(is.Body)
					if strings.Contains(body, "break") || strings.Contains(body, "return") || strings.Contains(body, "os.Exit") {
						scanChecked = true
					}
				}
				return true
			})
			return true
		})
	}
	o.Shape["mainLoopChecksScan"] = scanChecked
	o.Shape["mainLoopChecksQuit"] = quitChecked

	// channel capacity of Search.stop as allocated in NewSearch (0 = unbuffered)
	stopCap := -1
	if d, ok := fd["NewSearch"]; ok {
		ast.Inspect(d, func(n ast.Node) bool {
			as, ok := n.(*ast.AssignStmt)
			if !ok || len(as.Lhs) != 1 || len(as.Rhs) != 1 {
				return true
			}
			if !strings.HasSuffix(exprString(as.Lhs[0]), ".stop") {
				return true
			}
			if call, ok := as.Rhs[0].(*ast.CallExpr); ok && exprString(call.Fun) == "make" {
				if len(call.Args) == 1 {
					stopCap = 0
				} else if tv, ok := info.Types[call.Args[1]]; ok && tv.Value != nil {
					if v, ok := constant.Int64Val(tv.Value); ok {
						stopCap = int(v)
					}
				}
			}
			return true
		})
	}
	o.Shape["stopChanCap"] = stopCap

	// the `stop` handler in ParseInputLine: is the send guarded by a select with default (non-blocking)?
	// does its condition read search.interrupted? ; the `isready` handler: does it allocate unconditionally?
	stopNonBlocking, stopReadsInterrupted, isreadyUnconditionalNew := false, false, false
	if d, ok := fd["ParseInputLine"]; ok {
		ast.Inspect(d, func(n ast.Node) bool {
			is, ok := n.(*ast.IfStmt)
			if !ok {
				return true
			}
			cond := exprString(is.Cond)
			if strings.Contains(cond, `"stop"`) {
				body := exprString(is.Body)
				stopReadsInterrupted = strings.Contains(body, ".interrupted")
				hasSend := false
				inSelectDefault := false
				ast.Inspect(is.Body, func(m ast.Node) bool {
					switch s := m.(type) {
					case *ast.SendStmt:
						hasSend = true
					case *ast.SelectStmt:
						hasDefault := false
						sends := false
						for _, c := range s.Body.List {
							cc := c.(*ast.CommClause)
							if cc.Comm == nil {
								hasDefault = true
							} else if _, ok := cc.Comm.(*ast.SendStmt); ok {
								sends = true
							}
						}
						if hasDefault && sends {
							inSelectDefault = true
						}
					}
					return true
				})
				stopNonBlocking = !hasSend || inSelectDefault
			}
			if strings.Contains(cond, "uIsReady") {
				// first statement of the branch assigns search = NewSearch() directly?
				for _, st := range is.Body.List {
					if as, ok := st.(*ast.AssignStmt); ok && exprString(as.Lhs[0]) == "search" && strings.Contains(exprString(as.Rhs[0]), "NewSearch") {
						isreadyUnconditionalNew = true
					}
				}
			}
			return true
		})
	}
	o.Shape["stopNonBlocking"] = stopNonBlocking
	o.Shape["stopReadsInterrupted"] = stopReadsInterrupted
	o.Shape["isreadyUnconditionalNew"] = isreadyUnconditionalNew

	// doGo drains the stop channel / resets the flag before spawning the search?
	// Only an UNCONDITIONAL drain counts: a select with a receive from the stop channel and a default clause that is
	// a top-level statement of doGo and precedes the top-level `go` statement (a drain nested in an `if`, or moved
	// into the search thread, does not empty the channel on every path before the search is spawned).
	goDrains := false
	if d, ok := fd["doGo"]; ok && d.Body != nil {
		for _, st := range d.Body.List {
			if _, isGo := st.(*ast.GoStmt); isGo {
				break
			}
			if s, ok := st.(*ast.SelectStmt); ok {
				recv, def := false, false
				for _, c := range s.Body.List {
					cc := c.(*ast.CommClause)
					if cc.Comm == nil {
						def = true
					} else if strings.Contains(exprString(cc.Comm), "<-") && strings.Contains(exprString(cc.Comm), "stop") {
						recv = true
					}
				}
				if recv && def {
					goDrains = true
				}
			}
		}
	}
	o.Shape["goDrainsStop"] = goDrains

	// the clock polls of the search: each of these functions has a loop whose body tests `time.Now().After(<deadline>)`
	// in an `if` that leaves the loop (the model consults its clock oracle at exactly these places; the deadline
	// theorems of Props/C13Deadline are about that model)
	for _, spec := range [][2]string{{"clockPoll_quiescence", "Search.quiescence"}, {"clockPoll_alphaBeta", "Search.alphaBeta"},
		{"clockPoll_startAlphaBeta", "Search.startAlphaBeta"}, {"clockPoll_deepening", "Search.StartIterativeDeepening"}} {
		found := false
		d, ok := fd[spec[1]]
		if !ok {
			d, ok = fd[strings.TrimPrefix(spec[1], "Search.")]
		}
		if ok && d.Body != nil {
			ast.Inspect(d.Body, func(n ast.Node) bool {
				var body *ast.BlockStmt
				switch l := n.(type) {
				case *ast.ForStmt:
					body = l.Body
				case *ast.RangeStmt:
					body = l.Body
				}
				if body == nil {
					return true
				}
				ast.Inspect(body, func(m ast.Node) bool {
					if is, ok := m.(*ast.IfStmt); ok {
						c := exprString(is.Cond)
						if strings.Contains(c, "time.Now().After(") && !strings.Contains(c, "!time.Now().After(") && strings.Contains(exprString(is.Body), "break") {
							found = true
						}
					}
					return true
				})
				return true
			})
		}
		o.Shape[spec[0]] = found
	}

	// size of the PV table (array length of Search.bestLineAtDepth) and of each row as allocated
	if obj := info.Defs; obj != nil {
		for id, ob := range info.Defs {
			if id.Name == "bestLineAtDepth" && ob != nil {
				if arr, ok := ob.Type().(*types.Array); ok {
					o.Shape["pvRows"] = arr.Len()
				}
			}
		}
	}
	if d, ok := fd["NewSearch"]; ok {
		ast.Inspect(d, func(n ast.Node) bool {
			if call, ok := n.(*ast.CallExpr); ok && exprString(call.Fun) == "make" && len(call.Args) >= 2 &&
				strings.Contains(exprString(call.Args[0]), "Move") {
				o.Shape["pvRowLenExpr"] = exprString(call.Args[1])
			}
			return true
		})
	}
	// killer table index expression used by probeKillerMoves / updateKillerMoves
	for _, fn := range []string{"probeKillerMoves", "updateKillerMoves"} {
		if d, ok := fd[fn]; ok {
			idx := []string{}
			ast.Inspect(d, func(n ast.Node) bool {
				if ie, ok := n.(*ast.IndexExpr); ok && exprString(ie.X) == "killerMoves" {
					idx = append(idx, exprString(ie.Index))
				}
				return true
			})
			sort.Strings(idx)
			o.Shape["killerIndex_"+fn] = strings.Join(uniq(idx), "|")
		}
	}
}

func uniq(xs []string) []string {
	var out []string
	for i, x := range xs {
		if i == 0 || x != xs[i-1] {
			out = append(out, x)
		}
	}
	return out
}

// Static access table for C12: which package-level variables and struct fields are read / written in code
// statically reachable from (a) the search goroutine's entry, (b) the `stop` handler branch, (c) the `isready`
// handler branch. The engine has no interfaces or closures apart from the sort comparator, so call
// reachability over identifiers is exact enough. Channel operations and sync/atomic method calls are marked.
func sharedTable(info *types.Info, fd map[string]*ast.FuncDecl, o *out) {
	callees := func(n ast.Node) []string {
		var cs []string
		ast.Inspect(n, func(m ast.Node) bool {
			call, ok := m.(*ast.CallExpr)
			if !ok {
				return true
			}
			switch f := call.Fun.(type) {
			case *ast.Ident:
				if _, ok := fd[f.Name]; ok {
					cs = append(cs, f.Name)
				}
			case *ast.SelectorExpr:
				if sel, ok := info.Selections[f]; ok {
					if fn, ok := sel.Obj().(*types.Func); ok {
						recv := fn.Type().(*types.Signature).Recv()
						if recv != nil {
							t := recv.Type()
							if p, ok := t.(*types.Pointer); ok {
								t = p.Elem()
							}
							if nt, ok := t.(*types.Named); ok {
								name := nt.Obj().Name() + "." + fn.Name()
								if _, ok := fd[name]; ok {
									cs = append(cs, name)
								}
							}
						}
					}
				}
			}
			return true
		})
		return cs
	}
	reach := func(roots []ast.Node) map[string]ast.Node {
		seen := map[string]ast.Node{}
		var work []string
		for i, r := range roots {
			seen[fmt.Sprintf("<root%d>", i)] = r
			work = append(work, callees(r)...)
		}
		for len(work) > 0 {
			f := work[len(work)-1]
			work = work[:len(work)-1]
			if _, ok := seen[f]; ok {
				continue
			}
			seen[f] = fd[f].Body
			work = append(work, callees(fd[f].Body)...)
		}
		return seen
	}
	record := func(thread string, nodes map[string]ast.Node) {
		for fname, body := range nodes {
			if body == nil {
				continue
			}
			writes := map[ast.Expr]bool{}
			chanops := map[ast.Expr]bool{}
			ast.Inspect(body, func(m ast.Node) bool {
				switch s := m.(type) {
				case *ast.AssignStmt:
					for _, l := range s.Lhs {
						writes[baseExpr(l)] = true
					}
				case *ast.IncDecStmt:
					writes[baseExpr(s.X)] = true
				case *ast.SendStmt:
					chanops[baseExpr(s.Chan)] = true
				case *ast.UnaryExpr:
					if s.Op == token.ARROW {
						chanops[baseExpr(s.X)] = true
					}
				}
				return true
			})
			ast.Inspect(body, func(m ast.Node) bool {
				var loc string
				var key ast.Expr
				switch e := m.(type) {
				case *ast.Ident:
					if v, ok := info.Uses[e].(*types.Var); ok && !v.IsField() && v.Parent() == v.Pkg().Scope() {
						loc = "var:" + v.Name()
						key = e
					}
				case *ast.SelectorExpr:
					if sel, ok := info.Selections[e]; ok && sel.Kind() == types.FieldVal {
						t := sel.Recv()
						if p, ok := t.(*types.Pointer); ok {
							t = p.Elem()
						}
						if nt, ok := t.(*types.Named); ok {
							loc = "field:" + nt.Obj().Name() + "." + sel.Obj().Name()
							key = e
						}
					}
				}
				if loc == "" {
					return true
				}
				// a constructor works on the object it has just allocated: nothing else can see it yet
				if strings.HasPrefix(loc, "field:") && strings.HasPrefix(fname, "New") {
					return true
				}
				kind := "R"
				if writes[key] {
					kind = "W"
				}
				sync := ""
				if chanops[key] {
					sync = "chan"
				}
				if tv, ok := info.Types[key]; ok && strings.Contains(tv.Type.String(), "sync/atomic") {
					sync = "atomic"
				}
				where := fname
				o.Shared = append(o.Shared, sharedAccess{loc, thread, kind, where, sync})
				return true
			})
		}
	}
	if d, ok := fd["Search.StartIterativeDeepening"]; ok {
		record("search", reach([]ast.Node{d.Body}))
	}
	if d, ok := fd["ParseInputLine"]; ok {
		ast.Inspect(d, func(n ast.Node) bool {
			is, ok := n.(*ast.IfStmt)
			if !ok {
				return true
			}
			cond := exprString(is.Cond)
			if strings.Contains(cond, `"stop"`) {
				record("stop", reach([]ast.Node{is.Body}))
			}
			if strings.Contains(cond, "uIsReady") {
				record("isready", reach([]ast.Node{is.Body}))
			}
			return true
		})
	}
	// dedupe + sort
	seen := map[string]bool{}
	var ded []sharedAccess
	for _, s := range o.Shared {
		s.Where = strings.TrimPrefix(s.Where, "<root0>")
		k := s.Location + "|" + s.Thread + "|" + s.Kind + "|" + s.Sync
		if !seen[k] {
			seen[k] = true
			s.Where = ""
			ded = append(ded, s)
		}
	}
	sort.Slice(ded, func(i, j int) bool {
		a, b := ded[i], ded[j]
		if a.Location != b.Location {
			return a.Location < b.Location
		}
		if a.Thread != b.Thread {
			return a.Thread < b.Thread
		}
		return a.Kind < b.Kind
	})
	o.Shared = ded
}

func baseExpr(e ast.Expr) ast.Expr {
	for {
		switch t := e.(type) {
		case *ast.IndexExpr:
			e = t.X
		case *ast.ParenExpr:
			e = t.X
		case *ast.StarExpr:
			e = t.X
		default:
			return e
		}
	}
}
