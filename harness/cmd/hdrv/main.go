//go:build verif

// hdrv: in-process line-protocol driver over the real engine (linked from the repository under test
// with -tags verif). One operation per input line, fields separated by TAB; one canonical result line
// per operation. A Go panic inside an operation is recovered and reported as `panic <message>`.
package main

import (
	"bufio"
	"encoding/hex"
	"encoding/json"
	"fmt"
	"io"
	"os"
	"sort"
	"strconv"
	"strings"

	"macsmol/magog/engine"
)

var realStdout *os.File

func main() {
	// the engine prints with fmt.Println to os.Stdout; keep our protocol on the real stdout and
	// send engine chatter to a pipe that we drain (and capture when an op wants it)
	realStdout = os.Stdout
	out := bufio.NewWriterSize(realStdout, 1<<16)
	defer out.Flush()
	in := bufio.NewReaderSize(os.Stdin, 1<<20)
	for {
		line, err := in.ReadString('\n')
		if len(line) > 0 {
			line = strings.TrimRight(line, "\n")
			res := runOp(line)
			out.WriteString(res)
			out.WriteByte('\n')
			out.Flush()
		}
		if err != nil {
			break
		}
	}
}

// captureStdout runs f with os.Stdout redirected to a pipe and returns what was printed.
func captureStdout(f func()) (s string) {
	r, w, err := os.Pipe()
	if err != nil {
		panic(err)
	}
	saved := os.Stdout
	os.Stdout = w
	done := make(chan string)
	go func() {
		b, _ := io.ReadAll(r)
		done <- string(b)
	}()
	defer func() {
		os.Stdout = saved
		w.Close()
		s = <-done
		r.Close()
	}()
	f()
	return
}

func runOp(line string) (res string) {
	defer func() {
		if r := recover(); r != nil {
			msg := fmt.Sprint(r)
			msg = strings.ReplaceAll(msg, "\n", " ")
			if len(msg) > 160 {
				msg = msg[:160]
			}
			res = "panic " + msg
		}
	}()
	f := strings.Split(line, "\t")
	var out string
	captured := captureStdout(func() { out = dispatch(f) })
	_ = captured
	return out
}

func sorted(xs []string) []string {
	ys := append([]string(nil), xs...)
	sort.Strings(ys)
	return ys
}

func atoi(s string) int {
	n, err := strconv.Atoi(s)
	if err != nil {
		panic("hdrv: bad integer " + s)
	}
	return n
}

func genFromArg(arg string) (*engine.Generator, string) {
	gen, err := engine.NewGeneratorFromFen(arg)
	if err != nil {
		return nil, "fenerr"
	}
	return gen, ""
}

func dispatch(f []string) string {
	switch f[0] {
	case "gen": // gen <fen> -> moves (with ep mark), tactical list, both counters, in-check
		gen, e := genFromArg(f[1])
		if gen == nil {
			return e
		}
		ms := sorted(engine.VerifGen(gen))
		ts := sorted(engine.VerifGenTactical(gen))
		fl := sorted(engine.VerifGenFlags(gen))
		return fmt.Sprintf("ok moves=%s tact=%s flags=%s cnt=%d tcnt=%d chk=%v", strings.Join(ms, ","), strings.Join(ts, ","),
			strings.Join(fl, ","), engine.VerifCount(gen), engine.VerifCountTactical(gen), b2i(engine.VerifInCheck(gen)))
	case "snap": // snap <fen> -> snapshot (+ consistency verdict)
		gen, e := genFromArg(f[1])
		if gen == nil {
			return e
		}
		return "ok " + engine.VerifSnapshot(gen)
	case "fen": // fen <hex bytes> -> ok snapshot | fenerr | panic
		b, err := hex.DecodeString(f[1])
		if err != nil {
			panic("hdrv: bad hex")
		}
		gen, e := genFromArg(string(b))
		if gen == nil {
			return e
		}
		return "ok " + engine.VerifSnapshot(gen)
	case "make": // make <fen> <move> : legal generated move through PushMove/PopMove
		gen, e := genFromArg(f[1])
		if gen == nil {
			return e
		}
		m, ok := engine.VerifFindMove(gen, f[2])
		if !ok {
			return "nomove"
		}
		mid, same := engine.VerifPushPop(gen, m)
		return fmt.Sprintf("ok %s popsame=%d", mid, b2i(same))
	case "makeraw": // makeraw <fen> from to promo ep -> snapshot + legality verdict of MakeMove on a copy
		gen, e := genFromArg(f[1])
		if gen == nil {
			return e
		}
		s, ok := engine.VerifMakeMoveRaw(gen, atoi(f[2]), atoi(f[3]), atoi(f[4]), atoi(f[5]))
		return fmt.Sprintf("ok %s legal=%d", s, b2i(ok))
	case "game": // game <fen> m1 m2 ... : PushMove along generated moves; snapshot + consistency after each
		gen, e := genFromArg(f[1])
		if gen == nil {
			return e
		}
		var sb strings.Builder
		sb.WriteString("ok")
		// plays on a fresh generator each ply so that the 200-slot stack is not the limit here
		cur := gen
		for _, ms := range f[2:] {
			m, ok := engine.VerifFindMove(cur, ms)
			if !ok {
				return sb.String() + " nomove:" + ms
			}
			mid, same := engine.VerifPushPop(cur, m)
			if !same {
				sb.WriteString(" POPDIFF")
			}
			engine.VerifPush(cur, m)
			_ = mid
			snap := engine.VerifSnapshot(cur)
			sb.WriteString(" | " + snap)
			// re-root: copy the top position to slot 0 of a new generator through the snapshot-free path
			cur = rebase(cur)
		}
		return sb.String()
	case "gamegen": // gamegen <fen> m1 m2 ... : play the moves on ONE generator (PushMove, state carried by the engine
		// itself, not re-loaded from a FEN), then the same output as `gen` for the position reached
		gen, e := genFromArg(f[1])
		if gen == nil {
			return e
		}
		cur := gen
		for _, ms := range f[2:] {
			m, ok := engine.VerifFindMove(cur, ms)
			if !ok {
				return "ok nomove:" + ms
			}
			engine.VerifPush(cur, m)
			cur = rebase(cur)
		}
		ms := sorted(engine.VerifGen(cur))
		ts := sorted(engine.VerifGenTactical(cur))
		return fmt.Sprintf("ok moves=%s tact=%s cnt=%d tcnt=%d chk=%v", strings.Join(ms, ","), strings.Join(ts, ","),
			engine.VerifCount(cur), engine.VerifCountTactical(cur), b2i(engine.VerifInCheck(cur)))
	case "uci": // uci <line> : feed one line to ParseInputLine (synchronous commands only); prints captured stdout as hex
		var outp string
		outp = captureStdout(func() { engine.ParseInputLine(f[1]) })
		snap, idx := engine.VerifPosGenSnapshot()
		return fmt.Sprintf("ok idx=%d snap=[%s] out=%s", idx, snap, hex.EncodeToString([]byte(outp)))
	case "ucihex": // same with the line given as hex (arbitrary bytes)
		b, err := hex.DecodeString(f[1])
		if err != nil {
			panic("hdrv: bad hex")
		}
		outp := captureStdout(func() { engine.ParseInputLine(string(b)) })
		snap, idx := engine.VerifPosGenSnapshot()
		return fmt.Sprintf("ok idx=%d snap=[%s] out=%s", idx, snap, hex.EncodeToString([]byte(outp)))
	case "att": // att <placement64> <w|b turn> <dest 0x88> <byWhite 0/1>
		gen := engine.VerifPositionFromPlacement(f[1], f[2] == "w")
		return fmt.Sprintf("ok %d", b2i(engine.VerifIsAttacked(gen, atoi(f[3]), f[4] == "1")))
	case "attrow": // attrow <placement64> <byWhite 0/1> -> 64 chars, one per destination a1..h8
		gen := engine.VerifPositionFromPlacement(f[1], true)
		var sb strings.Builder
		for i := 0; i < 64; i++ {
			sq := (i/8)<<4 | i%8
			if engine.VerifIsAttacked(gen, sq, f[2] == "1") {
				sb.WriteByte('1')
			} else {
				sb.WriteByte('0')
			}
		}
		return "ok " + sb.String()
	case "attfen": // attfen <fen> -> attacked-by-white row, attacked-by-black row
		gen, e := genFromArg(f[1])
		if gen == nil {
			return e
		}
		var w, b strings.Builder
		for i := 0; i < 64; i++ {
			sq := (i/8)<<4 | i%8
			w.WriteByte('0' + byte(b2i(engine.VerifIsAttacked(gen, sq, true))))
			b.WriteByte('0' + byte(b2i(engine.VerifIsAttacked(gen, sq, false))))
		}
		return "ok " + w.String() + " " + b.String()
	case "eval": // eval <fen> -> full cheap
		gen, e := genFromArg(f[1])
		if gen == nil {
			return e
		}
		before := engine.VerifSnapshot(gen)
		full, cheap := engine.VerifEvalParts(gen)
		after := engine.VerifSnapshot(gen)
		return fmt.Sprintf("ok full=%d cheap=%d same=%d", full, cheap, b2i(before == after))
	case "lazy": // lazy <fen> depth alpha beta
		gen, e := genFromArg(f[1])
		if gen == nil {
			return e
		}
		return fmt.Sprintf("ok %d", engine.VerifLazyEval(gen, atoi(f[2]), atoi(f[3]), atoi(f[4])))
	case "blend": // blend <materialSum> <mid> <end>
		return fmt.Sprintf("ok %d", engine.VerifBlend(atoi(f[1]), atoi(f[2]), atoi(f[3])))
	case "blendbound": // blendbound <maxSum> <B>: max |blend msum mid end| over 0<=msum<=maxSum, |mid|,|end|<=B (exhaustive)
		maxSum, b := atoi(f[1]), atoi(f[2])
		worst, wm, wa, we := 0, 0, 0, 0
		for m := 0; m <= maxSum; m++ {
			for a := -b; a <= b; a++ {
				for e := -b; e <= b; e++ {
					v := engine.VerifBlend(m, a, e)
					if v < 0 {
						v = -v
					}
					if v > worst {
						worst, wm, wa, we = v, m, a, e
					}
				}
			}
		}
		return fmt.Sprintf("ok %d at %d %d %d", worst, wm, wa, we)
	case "mv": // mv <hex string> -> parseMoveString
		b, _ := hex.DecodeString(f[1])
		from, to, promo, err := engine.VerifParseMove(string(b))
		if err != nil {
			return "err"
		}
		return fmt.Sprintf("ok %d %d %d", from, to, promo)
	case "mvstr": // mvstr from to promo
		return "ok " + engine.VerifMoveString(atoi(f[1]), atoi(f[2]), atoi(f[3]))
	case "fmt": // fmt <score>
		return "ok " + engine.VerifFormatScore(atoi(f[1]))
	case "time": // time <w|b> wtime btime winc binc mtg -> allotted millis
		fen := "4k3/8/8/8/8/8/8/4K3 " + f[1] + " - - 0 1"
		gen, e := genFromArg(fen)
		if gen == nil {
			return e
		}
		engine.VerifSetPosGen(gen)
		return fmt.Sprintf("ok %d", engine.VerifCalcEndtime(atoi(f[3]), atoi(f[5]), atoi(f[2]), atoi(f[4]), atoi(f[6])))
	case "search": // search <fen> <maxDepth> -> per iteration: score, oneLegal, pv, nodes, lazy stats
		gen, e := genFromArg(f[1])
		if gen == nil {
			return e
		}
		before := engine.VerifSnapshot(gen)
		its := engine.VerifSearch(gen, atoi(f[2]))
		after := engine.VerifSnapshot(gen)
		var sb strings.Builder
		fmt.Fprintf(&sb, "ok same=%d idx=%d", b2i(before == after), engine.VerifPlyIdx(gen))
		for _, it := range its {
			fmt.Fprintf(&sb, " | d=%d score=%d one=%d nodes=%d lazy=%d wrong=%d pv=%s", it.Depth, it.Score, b2i(it.OneLegal),
				it.Nodes, it.LazyCuts, it.LazyWrong, strings.Join(it.Pv, ","))
		}
		return sb.String()
	case "perft": // perft <fen> <n> -> Perft(n) PerftTactical(n)
		gen, e := genFromArg(f[1])
		if gen == nil {
			return e
		}
		n := atoi(f[2])
		return fmt.Sprintf("ok %d %d", gen.Perft(n), gen.PerftTactical(n))
	case "dump": // run-time dump of tables for the T1 cross-check
		att, dir := engine.VerifTables()
		d := map[string]any{"attackTable": att, "directionTable": dir, "pst": engine.VerifPst(),
			"kingDirections": engine.VerifKingDirections(), "start": engine.VerifStartSnapshot()}
		b, _ := json.Marshal(d)
		return "ok " + string(b)
	}
	panic("hdrv: unknown op " + f[0])
}

// rebase makes a new generator whose slot 0 is the current top position (via makeraw-free copy):
// implemented through the snapshot accessor's sibling VerifRebase.
func rebase(g *engine.Generator) *engine.Generator { return engine.VerifRebase(g) }

func b2i(b bool) int {
	if b {
		return 1
	}
	return 0
}
