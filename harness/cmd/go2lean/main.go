// go2lean: translator (T0) from a pure subset of Go to Lean 4. For every function (or named expression) in the
// whitelist below it prints a Lean definition that computes what the Go code computes:
//   * integer types become Int, every +,-,*,<<, unary minus and narrowing conversion is wrapped to the width of
//     its Go type (wrapS / wrapU), `/` and `%` are Go's truncating operations and panic on a zero divisor,
//   * bool becomes Bool, `&&`/`||` short-circuit,
//   * `if` / `switch` (without fallthrough) / `return` / `:=` / `=` / `op=` / `var` / `panic` are supported,
//     an `if` that does not return is translated by continuing both branches with the rest of the block,
//   * a function that can panic (division, explicit panic, call of such a function) returns `Except String T`.
// Anything else is reported as `untranslatable` for that item (the definition is then missing and the tie theorem
// that mentions it no longer builds - reported by the check as a broken obligation, never a crash of this tool).
// Constants are inlined with their exact go/types value.
//
// usage: go2lean <repo>   (prints Magog/Generated/Funcs.lean on stdout)
package main

import (
	"bytes"
	"math/big"
	"fmt"
	"go/ast"
	"go/constant"
	"go/importer"
	"go/parser"
	"go/printer"
	"go/token"
	"go/types"
	"os"
	"path/filepath"
	"sort"
	"strings"
)

// ---- whitelist --------------------------------------------------------------------------------------

type item struct {
	Func string // Go function name (methods: Recv.Name)
	Lean string // Lean name (defaults to Func with '.' replaced by '_')
	// slice of a larger function: translate statements up to (excluding) the first statement whose printed text
	// starts with StopBefore and return the variable Result
	StopBefore string
	Result     string
	// alternative cut: stop before the first statement whose printed text mentions this identifier (robust against
	// rewrites of that statement)
	StopAtMention string
	// Go expressions (printed text) replaced by a fresh parameter "name:Type"; a key "text#n" stands for the n-th
	// occurrence of that text in the function body, in source order (two calls that read different states)
	Opaque map[string]string
	// statements (by the prefix of their printed text) left out of the translation: counters, hooks, debug
	// printing, and writes to state that only the Opaque expressions read. Listed explicitly because each one is
	// a trusted claim that the statement does not influence the translated result.
	Skip []string
	// statement-range slice: start at the first top-level statement whose printed text starts with StartAt; locals
	// declared before it become parameters. State maps the printed text of an lvalue (e.g. "pos.flags") to a
	// variable "name:Type" that is a parameter, may be assigned, and is what Result names.
	StartAt string
	State   map[string]string
	// parameters dropped from the signature (must be unused in the translated part)
	Drop []string
	// named expression: instead of the body, translate the right-hand side of the first assignment/definition of
	// ExprVar in Func; free local variables become parameters in order of appearance
	ExprVar string
}

var whitelist = []item{
	{Func: "min"}, {Func: "max"}, {Func: "abs"},
	{Func: "killerSlot"},
	{Func: "nextMoveWins"},
	{Func: "closeToMate"}, {Func: "fullMovesToMate"}, {Func: "pliesToMate"},
	{Func: "moveIndex"},
	{Func: "pieceToScore"},
	{Func: "square.getRank"}, {Func: "square.getFile"}, {Func: "rankFrom07Number"},
	{Func: "charToPiece"},
	{Func: "calcEndtime", Lean: "calcEndtime_millis", StopAtMention: "startTime", Result: "millisForMove",
		Opaque: map[string]string{"posGen.getTopPos().flags&FlagWhiteTurn == 0": "isBlackTurn:Bool"}, Drop: []string{"startTime"}},
	{Func: "LazyEvaluate", Lean: "LazyEvaluate_decision", Drop: []string{"pos", "debug"},
		Opaque: map[string]string{"isCheckMate(pos)": "mate:Bool", "pieceSquareScore(pos, gamePhaseFactor, debug...)": "cheap:Int",
			"pos.countMoves()#1": "own:Int", "pos.countMoves()#2": "enemy:Int"},
		Skip: []string{"evaluatedNodes++", "gamePhaseFactor :=", "verifLazyCut(", "pos.flags =", "if len(debug) > 0"}},
	{Func: "Position.MakeMove", Lean: "MakeMove_corners", StartAt: "if mov.from.getFile() == A &&", StopBefore: "if pos.board[mov.to] != NullPiece",
		Result: "flags", State: map[string]string{"pos.flags": "flags:Int"}, Opaque: map[string]string{"mov.from": "from_:Int", "mov.to": "to_:Int"}},
	{Func: "Position.areCastlingFlagsConsistent", Lean: "areCastlingFlagsConsistent", Drop: []string{"pos"},
		Opaque: map[string]string{"pos.flags": "flags:Int", "pos.board[E1]": "e1:Int", "pos.board[H1]": "h1:Int", "pos.board[A1]": "a1:Int",
			"pos.board[E8]": "e8:Int", "pos.board[H8]": "h8:Int", "pos.board[A8]": "a8:Int"}},
	{Func: "Position.hasRoomFor", Lean: "hasRoomFor_decision", Drop: []string{"pos"},
		Opaque: map[string]string{"pawns.size": "pawnsSize:Int", "pieces.size": "piecesSize:Int"},
		Skip:   []string{"pieces, pawns := &pos.blackPieces", "if p&WhitePieceBit != 0"}},
	{Func: "terminalNodeScore", Lean: "terminalNodeScore_decision", Drop: []string{"position"},
		Opaque: map[string]string{"position.isCurrentKingUnderCheck()": "inCheck:Bool"}, Skip: []string{"evaluatedNodes++"}},
	{Func: "appendCapture", Lean: "appendCapture_ranking", ExprVar: "captureRanking"},
	{Func: "appendMoveOrCapture", Lean: "appendMoveOrCapture_ranking", ExprVar: "captureRanking"},
	{Func: "appendSlidingPieceMoveOrCapture", Lean: "appendSlidingPieceMoveOrCapture_ranking", ExprVar: "captureRanking"},
}

// ---- translator -------------------------------------------------------------------------------------

type unsupported struct{ msg string }

func bad(format string, a ...any) { panic(unsupported{fmt.Sprintf(format, a...)}) }

type tr struct {
	fset    *token.FileSet
	info    *types.Info
	funcs   map[string]*ast.FuncDecl
	partial map[string]bool // Lean name of translated functions that return Except
	done    map[string]string
	leanOf  map[string]string // Go func key -> Lean name, for whitelisted whole functions
	cur     *item
	isPart  bool
	extra   []string // extra params from Opaque, "name : Type"
	extraOK map[string]bool
	nodeOpq map[ast.Node]string // expression node -> "name:Type"
	stateIdent map[*ast.Ident]ast.Expr
}

func (t *tr) text(n ast.Node) string {
	var b bytes.Buffer
	printer.Fprint(&b, t.fset, n)
	return b.String()
}

func bitsOf(ty types.Type) (bits int, signed bool, ok bool) {
	b, isB := ty.Underlying().(*types.Basic)
	if !isB {
		return 0, false, false
	}
	switch b.Kind() {
	case types.Int8:
		return 8, true, true
	case types.Int16:
		return 16, true, true
	case types.Int32, types.UntypedRune:
		return 32, true, true
	case types.Int64, types.Int, types.UntypedInt:
		return 64, true, true
	case types.Uint8:
		return 8, false, true
	case types.Uint16:
		return 16, false, true
	case types.Uint32:
		return 32, false, true
	case types.Uint64, types.Uint, types.Uintptr:
		return 64, false, true
	}
	return 0, false, false
}

func leanType(ty types.Type) string {
	if b, ok := ty.Underlying().(*types.Basic); ok && b.Info()&types.IsBoolean != 0 {
		return "Bool"
	}
	if _, _, ok := bitsOf(ty); ok {
		return "Int"
	}
	bad("type %s", ty)
	return ""
}

func wrap(ty types.Type, e string) string {
	bits, signed, ok := bitsOf(ty)
	if !ok {
		bad("arithmetic on %s", ty)
	}
	if signed {
		return fmt.Sprintf("(wrapS %d %s)", bits, e)
	}
	return fmt.Sprintf("(wrapU %d %s)", bits, e)
}

func leanInt(s string) string {
	if strings.HasPrefix(s, "-") {
		return "(" + s + ")"
	}
	return s
}

// expression -> Lean term (parenthesised where needed). In a partial function the term may contain (← ...).
func (t *tr) expr(e ast.Expr) string {
	if name, ok := t.cur.State[t.text(e)]; ok {
		return strings.SplitN(name, ":", 2)[0]
	}
	if name, ok := t.nodeOpq[e]; ok {
		nm := strings.SplitN(name, ":", 2)
		if !t.extraOK[nm[0]] {
			t.extraOK[nm[0]] = true
			t.extra = append(t.extra, fmt.Sprintf("(%s : %s)", nm[0], nm[1]))
		}
		return nm[0]
	}
	if tv, ok := t.info.Types[e]; ok && tv.Value != nil {
		switch tv.Value.Kind() {
		case constant.Int:
			return leanInt(tv.Value.ExactString())
		case constant.Bool:
			if constant.BoolVal(tv.Value) {
				return "true"
			}
			return "false"
		}
		bad("constant of kind %v", tv.Value.Kind())
	}
	switch x := e.(type) {
	case *ast.ParenExpr:
		return t.expr(x.X)
	case *ast.Ident:
		if x.Name == "true" || x.Name == "false" {
			return x.Name
		}
		obj := t.info.Uses[x]
		if v, ok := obj.(*types.Var); ok && !v.IsField() && v.Parent() != v.Pkg().Scope() {
			leanType(v.Type())
			return mangle(x.Name)
		}
		bad("identifier %s (not a local variable or constant)", x.Name)
	case *ast.UnaryExpr:
		a := t.expr(x.X)
		switch x.Op {
		case token.SUB:
			return wrap(t.info.TypeOf(e), "(- "+a+")")
		case token.NOT:
			return "(!" + a + ")"
		case token.ADD:
			return a
		case token.XOR:
			bits, signed, ok := bitsOf(t.info.TypeOf(e))
			if !ok || signed {
				bad("bitwise complement on signed or non-integer type")
			}
			return fmt.Sprintf("(%s - %s)", new(big.Int).Sub(new(big.Int).Lsh(big.NewInt(1), uint(bits)), big.NewInt(1)).String(), a)
		}
		bad("unary %s", x.Op)
	case *ast.BinaryExpr:
		ty := t.info.TypeOf(e)
		switch x.Op {
		case token.LAND, token.LOR:
			if t.mayPanic(x.Y) {
				bad("short-circuit operator with a right operand that can panic")
			}
			op := map[token.Token]string{token.LAND: "&&", token.LOR: "||"}[x.Op]
			return "(" + t.expr(x.X) + " " + op + " " + t.expr(x.Y) + ")"
		}
		a, b := t.expr(x.X), t.expr(x.Y)
		switch x.Op {
		case token.ADD:
			return wrap(ty, "("+a+" + "+b+")")
		case token.SUB:
			return wrap(ty, "("+a+" - "+b+")")
		case token.MUL:
			return wrap(ty, "("+a+" * "+b+")")
		case token.QUO:
			if t.nonzeroConst(x.Y) {
				return wrap(ty, "(Int.tdiv "+a+" "+b+")")
			}
			return wrap(ty, "(← goDiv "+a+" "+b+")")
		case token.REM:
			if t.nonzeroConst(x.Y) {
				return "(Int.tmod " + a + " " + b + ")"
			}
			return "(← goMod " + a + " " + b + ")"
		case token.AND_NOT:
			bits, signed, ok := bitsOf(ty)
			if !ok || signed {
				bad("bit operation on signed or non-integer type %s", ty)
			}
			return fmt.Sprintf("(band %s (%s - %s))", a, new(big.Int).Sub(new(big.Int).Lsh(big.NewInt(1), uint(bits)), big.NewInt(1)).String(), b)
		case token.AND, token.OR, token.XOR:
			_, signed, ok := bitsOf(ty)
			if !ok || signed {
				bad("bit operation on signed or non-integer type %s", ty)
			}
			f := map[token.Token]string{token.AND: "band", token.OR: "bor", token.XOR: "bxor"}[x.Op]
			return "(" + f + " " + a + " " + b + ")"
		case token.SHL:
			return wrap(ty, "(shl "+a+" "+b+")")
		case token.SHR:
			return "(shr " + a + " " + b + ")"
		case token.EQL:
			t.needScalar(x.X)
			return "(" + a + " == " + b + ")"
		case token.NEQ:
			t.needScalar(x.X)
			return "(" + a + " != " + b + ")"
		case token.LSS:
			return "(decide (" + a + " < " + b + "))"
		case token.LEQ:
			return "(decide (" + a + " ≤ " + b + "))"
		case token.GTR:
			return "(decide (" + a + " > " + b + "))"
		case token.GEQ:
			return "(decide (" + a + " ≥ " + b + "))"
		}
		bad("binary %s", x.Op)
	case *ast.CallExpr:
		// conversion?
		if tv, ok := t.info.Types[x.Fun]; ok && tv.IsType() {
			if len(x.Args) != 1 {
				bad("conversion arity")
			}
			src := t.info.TypeOf(x.Args[0])
			a := t.expr(x.Args[0])
			sb, ss, ok1 := bitsOf(src)
			db, ds, ok2 := bitsOf(tv.Type)
			if !ok1 || !ok2 {
				bad("conversion %s -> %s", src, tv.Type)
			}
			// value-preserving when the source range is inside the target range
			if (ss == ds && sb <= db) || (!ss && ds && sb < db) {
				return a
			}
			return wrap(tv.Type, a)
		}
		key := ""
		switch f := x.Fun.(type) {
		case *ast.Ident:
			key = f.Name
		case *ast.SelectorExpr:
			if sel, ok := t.info.Selections[f]; ok && sel.Kind() == types.MethodVal {
				recv := sel.Recv()
				if p, ok := recv.(*types.Pointer); ok {
					recv = p.Elem()
				}
				if n, ok := recv.(*types.Named); ok {
					key = n.Obj().Name() + "." + f.Sel.Name
					// receiver becomes the first argument
					args := []string{t.expr(f.X)}
					for _, a := range x.Args {
						args = append(args, t.expr(a))
					}
					return t.call(key, args)
				}
			}
		}
		if key == "" {
			bad("call of %s", t.text(x.Fun))
		}
		var args []string
		for _, a := range x.Args {
			args = append(args, t.expr(a))
		}
		return t.call(key, args)
	}
	bad("expression %s", t.text(e))
	return ""
}

// a constant divisor other than zero cannot panic
func (t *tr) nonzeroConst(e ast.Expr) bool {
	tv, ok := t.info.Types[e]
	return ok && tv.Value != nil && tv.Value.Kind() == constant.Int && constant.Sign(tv.Value) != 0
}

func (t *tr) typeOfLhs(id *ast.Ident) types.Type {
	if orig, ok := t.stateIdent[id]; ok {
		return t.info.TypeOf(orig)
	}
	return t.info.TypeOf(id)
}

func (t *tr) needScalar(e ast.Expr) { leanType(t.info.TypeOf(e)) }

func (t *tr) call(key string, args []string) string {
	ln, ok := t.leanOf[key]
	if !ok {
		bad("call of %s, which is not in the translated set", key)
	}
	if _, ok := t.done[ln]; !ok {
		bad("call of %s, which was not translatable", key)
	}
	s := ln + " " + strings.Join(args, " ")
	if t.partial[ln] {
		return "(← " + s + ")"
	}
	return "(" + s + ")"
}

// can evaluating e panic (division, call of a partial function)?
func (t *tr) mayPanic(n ast.Node) bool {
	p := false
	ast.Inspect(n, func(m ast.Node) bool {
		if _, ok := t.nodeOpq[m]; ok {
			return false
		}
		if st, ok := m.(ast.Stmt); ok && t.cur != nil {
			for _, pre := range t.cur.Skip {
				if strings.HasPrefix(t.text(st), pre) {
					return false
				}
			}
		}
		switch x := m.(type) {
		case *ast.BinaryExpr:
			if x.Op == token.QUO || x.Op == token.REM {
				if tv, ok := t.info.Types[ast.Expr(x)]; (!ok || tv.Value == nil) && !t.nonzeroConst(x.Y) {
					p = true
				}
			}
		case *ast.CallExpr:
			if id, ok := x.Fun.(*ast.Ident); ok {
				if id.Name == "panic" {
					p = true
				}
				if ln, ok := t.leanOf[id.Name]; ok && t.partial[ln] {
					p = true
				}
			}
			if se, ok := x.Fun.(*ast.SelectorExpr); ok {
				for k, ln := range t.leanOf {
					if strings.HasSuffix(k, "."+se.Sel.Name) && t.partial[ln] {
						p = true
					}
				}
			}
		case *ast.IndexExpr, *ast.SliceExpr, *ast.StarExpr:
			p = true
		}
		return true
	})
	return p
}

func mangle(s string) string {
	switch s {
	case "from", "to", "at", "end", "then", "do", "def", "fun", "let", "in", "where", "open", "show", "have", "by", "Type", "instance", "structure", "match", "with":
		return s + "_"
	}
	return s
}

func ind(n int) string { return strings.Repeat("  ", n) }

// statements -> Lean term of the function's result type (pure) or of Except String T (partial; a `do` block)
func (t *tr) stmts(ss []ast.Stmt, d int, declared map[string]bool) string {
	pre := ""
	if t.isPart {
		pre = "do\n" + ind(d)
	}
	return pre + t.seq(ss, d, declared)
}

func (t *tr) ret(e string) string {
	if t.isPart {
		return "pure " + e
	}
	return e
}

func copyset(m map[string]bool) map[string]bool {
	n := map[string]bool{}
	for k := range m {
		n[k] = true
	}
	return n
}

func (t *tr) seq(ss []ast.Stmt, d int, declared map[string]bool) string {
	if len(ss) == 0 {
		bad("control reaches the end of the function without a return")
	}
	s, rest := ss[0], ss[1:]
	if (t.cur.StopBefore != "" && strings.HasPrefix(t.text(s), t.cur.StopBefore)) || (t.cur.StopAtMention != "" && strings.Contains(t.text(s), t.cur.StopAtMention)) {
		if !declared[t.cur.Result] {
			bad("result variable %s not defined before the cut", t.cur.Result)
		}
		return t.ret(mangle(t.cur.Result))
	}
	for _, pre := range t.cur.Skip {
		if strings.HasPrefix(t.text(s), pre) {
			return t.seq(rest, d, declared)
		}
	}
	let := func(name, val string) string {
		return "let " + mangle(name) + " := " + val + "\n" + ind(d) + t.seq(rest, d, declared)
	}
	switch x := s.(type) {
	case *ast.ReturnStmt:
		if len(x.Results) != 1 {
			bad("return with %d results", len(x.Results))
		}
		return t.ret(t.expr(x.Results[0]))
	case *ast.ExprStmt:
		if c, ok := x.X.(*ast.CallExpr); ok {
			if id, ok := c.Fun.(*ast.Ident); ok && id.Name == "panic" {
				if !t.isPart {
					bad("panic in a function classified as pure")
				}
				return "throw \"panic\""
			}
		}
		bad("expression statement %s", t.text(s))
	case *ast.DeclStmt:
		gd, ok := x.Decl.(*ast.GenDecl)
		if !ok || gd.Tok != token.VAR || len(gd.Specs) != 1 {
			bad("declaration %s", t.text(s))
		}
		vs := gd.Specs[0].(*ast.ValueSpec)
		if len(vs.Names) != 1 {
			bad("multi-variable declaration")
		}
		name := vs.Names[0].Name
		if declared[name] {
			bad("redeclaration of %s in an inner scope", name)
		}
		declared[name] = true
		if len(vs.Values) == 1 {
			return let(name, t.expr(vs.Values[0]))
		}
		ty := t.info.TypeOf(vs.Names[0])
		if leanType(ty) == "Bool" {
			return let(name, "false")
		}
		return let(name, "(0 : Int)")
	case *ast.AssignStmt:
		if len(x.Lhs) > 1 && len(x.Lhs) == len(x.Rhs) && (x.Tok == token.DEFINE || x.Tok == token.ASSIGN) {
			// parallel assignment: every right-hand side is evaluated before any variable is bound
			out := ""
			var names []string
			for i, l := range x.Lhs {
				id, ok := l.(*ast.Ident)
				if !ok {
					bad("assignment to %s", t.text(l))
				}
				leanType(t.info.TypeOf(id))
				if id.Name != "_" {
					if x.Tok == token.DEFINE && declared[id.Name] {
						// := with at least one new variable may re-assign the others; an inner-scope redeclaration is refused
						if _, isNew := t.info.Defs[id]; isNew && t.info.Defs[id] != nil {
							bad("redeclaration of %s in an inner scope", id.Name)
						}
					}
				}
				out += fmt.Sprintf("let tmp%d__ := %s\n%s", i, t.expr(x.Rhs[i]), ind(d))
				names = append(names, id.Name)
			}
			for i, n := range names {
				if n == "_" {
					continue
				}
				declared[n] = true
				out += fmt.Sprintf("let %s := tmp%d__\n%s", mangle(n), i, ind(d))
			}
			return out + t.seq(rest, d, declared)
		}
		if len(x.Lhs) != 1 || len(x.Rhs) != 1 {
			bad("multiple assignment")
		}
		id, ok := x.Lhs[0].(*ast.Ident)
		if !ok {
			sv, isState := t.cur.State[t.text(x.Lhs[0])]
			if !isState {
				bad("assignment to %s", t.text(x.Lhs[0]))
			}
			// a state lvalue: behaves like the local variable it is mapped to
			id = &ast.Ident{Name: strings.SplitN(sv, ":", 2)[0]}
			t.info.Types[id] = types.TypeAndValue{Type: t.info.TypeOf(x.Lhs[0])}
			t.stateIdent[id] = x.Lhs[0]
		}
		leanType(t.typeOfLhs(id))
		switch x.Tok {
		case token.DEFINE:
			if declared[id.Name] {
				bad("redeclaration of %s in an inner scope", id.Name)
			}
			declared[id.Name] = true
			return let(id.Name, t.expr(x.Rhs[0]))
		case token.ASSIGN:
			if !declared[id.Name] {
				bad("assignment to non-local %s", id.Name)
			}
			return let(id.Name, t.expr(x.Rhs[0]))
		default:
			ops := map[token.Token]token.Token{token.ADD_ASSIGN: token.ADD, token.SUB_ASSIGN: token.SUB, token.MUL_ASSIGN: token.MUL, token.QUO_ASSIGN: token.QUO,
				token.REM_ASSIGN: token.REM, token.SHL_ASSIGN: token.SHL, token.SHR_ASSIGN: token.SHR, token.AND_ASSIGN: token.AND, token.OR_ASSIGN: token.OR, token.XOR_ASSIGN: token.XOR, token.AND_NOT_ASSIGN: token.AND_NOT}
			op, ok := ops[x.Tok]
			if !ok || !declared[id.Name] {
				bad("assignment operator %s", x.Tok)
			}
			var lhs ast.Expr = id
			if orig, ok := t.stateIdent[id]; ok {
				lhs = orig
			}
			be := &ast.BinaryExpr{X: lhs, Op: op, Y: x.Rhs[0]}
			t.info.Types[be] = types.TypeAndValue{Type: t.typeOfLhs(id)}
			return let(id.Name, t.expr(be))
		}
	case *ast.IncDecStmt:
		id, ok := x.X.(*ast.Ident)
		if !ok || !declared[id.Name] {
			bad("inc/dec of %s", t.text(x.X))
		}
		op := "+"
		if x.Tok == token.DEC {
			op = "-"
		}
		return let(id.Name, wrap(t.info.TypeOf(id), "("+mangle(id.Name)+" "+op+" 1)"))
	case *ast.BlockStmt:
		return t.seq(append(append([]ast.Stmt{}, x.List...), rest...), d, declared)
	case *ast.IfStmt:
		if x.Init != nil {
			bad("if with init statement")
		}
		c := t.expr(x.Cond)
		thenS := append(append([]ast.Stmt{}, x.Body.List...), rest...)
		var elseS []ast.Stmt
		switch e := x.Else.(type) {
		case nil:
			elseS = rest
		case *ast.BlockStmt:
			elseS = append(append([]ast.Stmt{}, e.List...), rest...)
		case *ast.IfStmt:
			elseS = append([]ast.Stmt{e}, rest...)
		}
		a := t.stmts(thenS, d+1, copyset(declared))
		b := t.stmts(elseS, d+1, copyset(declared))
		return "if " + c + " then " + a + "\n" + ind(d) + "else " + b
	case *ast.SwitchStmt:
		if x.Init != nil || x.Tag == nil {
			bad("switch form")
		}
		t.needScalar(x.Tag)
		tag := t.expr(x.Tag)
		out := "let tag__ := " + tag + "\n" + ind(d)
		var def []ast.Stmt
		hasDef := false
		type arm struct {
			cond string
			body []ast.Stmt
		}
		var arms []arm
		for _, cc := range x.Body.List {
			c := cc.(*ast.CaseClause)
			for _, st := range c.Body {
				if b, ok := st.(*ast.BranchStmt); ok {
					bad("branch statement %s in switch", b.Tok)
				}
			}
			if c.List == nil {
				def, hasDef = c.Body, true
				continue
			}
			var cs []string
			for _, v := range c.List {
				cs = append(cs, "(tag__ == "+t.expr(v)+")")
			}
			arms = append(arms, arm{strings.Join(cs, " || "), c.Body})
		}
		for _, a := range arms {
			body := t.stmts(append(append([]ast.Stmt{}, a.body...), rest...), d+1, copyset(declared))
			out += "if " + a.cond + " then " + body + "\n" + ind(d) + "else "
		}
		if hasDef {
			out += t.stmts(append(append([]ast.Stmt{}, def...), rest...), d+1, copyset(declared))
		} else {
			out += t.stmts(rest, d+1, copyset(declared))
		}
		return out
	}
	bad("statement %s", strings.SplitN(t.text(s), "\n", 2)[0])
	return ""
}

func funcKey(fd *ast.FuncDecl) string {
	if fd.Recv != nil && len(fd.Recv.List) == 1 {
		ty := fd.Recv.List[0].Type
		if st, ok := ty.(*ast.StarExpr); ok {
			ty = st.X
		}
		if id, ok := ty.(*ast.Ident); ok {
			return id.Name + "." + fd.Name.Name
		}
	}
	return fd.Name.Name
}

func (t *tr) translate(it *item) (def string, err string) {
	defer func() {
		if r := recover(); r != nil {
			if u, ok := r.(unsupported); ok {
				def, err = "", u.msg
				return
			}
			panic(r)
		}
	}()
	fd, ok := t.funcs[it.Func]
	if !ok {
		return "", "function not found"
	}
	t.cur = it
	if t.cur.Opaque == nil {
		t.cur.Opaque = map[string]string{}
	}
	t.extra, t.extraOK = nil, map[string]bool{}
	t.nodeOpq = map[ast.Node]string{}
	t.stateIdent = map[*ast.Ident]ast.Expr{}
	if t.cur.State == nil {
		t.cur.State = map[string]string{}
	}
	{
		count := map[string]int{}
		ast.Inspect(fd.Body, func(n ast.Node) bool {
			e, ok := n.(ast.Expr)
			if !ok {
				return true
			}
			txt := t.text(e)
			if _, isParen := e.(*ast.ParenExpr); isParen {
				return true
			}
			count[txt]++
			if name, ok := it.Opaque[txt]; ok {
				t.nodeOpq[e] = name
				return false
			}
			if name, ok := it.Opaque[fmt.Sprintf("%s#%d", txt, count[txt])]; ok {
				t.nodeOpq[e] = name
				return false
			}
			return true
		})
	}
	ln := it.Lean
	var params []string
	declared := map[string]bool{}
	drop := map[string]bool{}
	for _, d := range it.Drop {
		drop[d] = true
	}
	var body string
	var resType string
	if it.ExprVar != "" {
		// named expression
		var rhs ast.Expr
		ast.Inspect(fd.Body, func(n ast.Node) bool {
			if as, ok := n.(*ast.AssignStmt); ok && rhs == nil && len(as.Lhs) == 1 && len(as.Rhs) == 1 {
				if id, ok := as.Lhs[0].(*ast.Ident); ok && id.Name == it.ExprVar {
					rhs = as.Rhs[0]
				}
			}
			return true
		})
		if rhs == nil {
			return "", "no assignment to " + it.ExprVar
		}
		t.isPart = t.mayPanic(rhs)
		seen := map[string]bool{}
		ast.Inspect(rhs, func(n ast.Node) bool {
			if id, ok := n.(*ast.Ident); ok {
				if v, ok := t.info.Uses[id].(*types.Var); ok && !v.IsField() && v.Parent() != v.Pkg().Scope() && !seen[id.Name] {
					seen[id.Name] = true
					params = append(params, fmt.Sprintf("(%s : %s)", mangle(id.Name), leanType(v.Type())))
				}
			}
			return true
		})
		resType = leanType(t.info.TypeOf(rhs))
		e := t.expr(rhs)
		if t.isPart {
			body = "do\n  pure " + e
		} else {
			body = e
		}
	} else {
		if fd.Recv != nil && it.StartAt == "" {
			for _, f := range fd.Recv.List {
				for _, n := range f.Names {
					if drop[n.Name] {
						continue
					}
					params = append(params, fmt.Sprintf("(%s : %s)", mangle(n.Name), leanType(t.info.TypeOf(n))))
					declared[n.Name] = true
				}
			}
		}
		for _, f := range fd.Type.Params.List {
			for _, n := range f.Names {
				if drop[n.Name] || it.StartAt != "" {
					continue
				}
				params = append(params, fmt.Sprintf("(%s : %s)", mangle(n.Name), leanType(t.info.TypeOf(n))))
				declared[n.Name] = true
			}
		}
		if it.Result != "" {
			// type of the result variable
			var rty types.Type
			ast.Inspect(fd.Body, func(n ast.Node) bool {
				if id, ok := n.(*ast.Ident); ok && id.Name == it.Result && rty == nil {
					if o := t.info.ObjectOf(id); o != nil {
						rty = o.Type()
					}
				}
				return true
			})
			for _, sv := range it.State {
				nm := strings.SplitN(sv, ":", 2)
				if nm[0] == it.Result {
					resType = nm[1]
				}
			}
			if resType == "" {
				if rty == nil {
					return "", "result variable not found"
				}
				resType = leanType(rty)
			}
		} else {
			if fd.Type.Results == nil || len(fd.Type.Results.List) != 1 || len(fd.Type.Results.List[0].Names) > 1 {
				return "", "function must have exactly one result"
			}
			resType = leanType(t.info.TypeOf(fd.Type.Results.List[0].Type))
		}
		bodyList := fd.Body.List
		if it.StartAt != "" {
			k := -1
			for i, s := range bodyList {
				if strings.HasPrefix(t.text(s), it.StartAt) {
					k = i
					break
				}
			}
			if k < 0 {
				return "", "start statement not found"
			}
			bodyList = bodyList[k:]
			// the function's own parameters are not parameters of the slice unless used in it
			params = nil
			declared = map[string]bool{}
			names := make([]string, 0, len(it.State))
			for _, sv := range it.State {
				names = append(names, sv)
			}
			sort.Strings(names)
			for _, sv := range names {
				nm := strings.SplitN(sv, ":", 2)
				params = append(params, fmt.Sprintf("(%s : %s)", nm[0], nm[1]))
				declared[nm[0]] = true
			}
			start := bodyList[0].Pos()
			seen := map[string]bool{}
			for _, s := range bodyList {
				if it.StopBefore != "" && strings.HasPrefix(t.text(s), it.StopBefore) {
					break
				}
				ast.Inspect(s, func(n ast.Node) bool {
					if e, ok := n.(ast.Expr); ok {
						if _, ok := t.nodeOpq[e]; ok {
							return false
						}
						if _, ok := it.State[t.text(e)]; ok {
							return false
						}
					}
					if id, ok := n.(*ast.Ident); ok {
						if v, ok := t.info.Uses[id].(*types.Var); ok && !v.IsField() && v.Parent() != v.Pkg().Scope() && v.Pos() < start && !seen[id.Name] {
							seen[id.Name] = true
							params = append(params, fmt.Sprintf("(%s : %s)", mangle(id.Name), leanType(v.Type())))
							declared[id.Name] = true
						}
					}
					return true
				})
			}
		}
		// classification: partial iff the translated part can panic
		part := false
		for _, s := range bodyList {
			if (it.StopBefore != "" && strings.HasPrefix(t.text(s), it.StopBefore)) || (it.StopAtMention != "" && strings.Contains(t.text(s), it.StopAtMention)) {
				break
			}
			if t.mayPanic(s) {
				part = true
			}
		}
		t.isPart = part
		body = t.stmts(bodyList, 1, declared)
	}
	for _, d := range it.Drop {
		_ = d
	}
	params = append(params, t.extra...)
	rt := resType
	if t.isPart {
		rt = "Except String " + resType
	}
	t.partial[ln] = t.isPart
	pos := t.fset.Position(fd.Pos())
	def = fmt.Sprintf("/-- Go: `%s` (%s)%s -/\ndef %s %s : %s :=\n  %s\n", it.Func, filepath.Base(pos.Filename),
		map[bool]string{true: " - slice/expression, see go2lean whitelist", false: ""}[it.StopBefore != "" || it.StopAtMention != "" || it.ExprVar != ""],
		ln, strings.Join(params, " "), rt, body)
	return def, ""
}

const prelude = `-- GENERATED by /verif/harness/cmd/go2lean from the Go source of macsmol/magog. Do not edit.
-- Each definition is the translation of the Go function named in its doc comment (see go2lean/main.go for the
-- supported subset and its semantics). Theorems in Magog/Props/*Tie.lean equate them with the hand-written model.

set_option linter.unusedVariables false

namespace Magog.Gen.Fn

/-- two's-complement wrap to a signed width -/
def wrapS (bits : Nat) (x : Int) : Int := (x + 2 ^ (bits - 1)) % 2 ^ bits - 2 ^ (bits - 1)
/-- wrap to an unsigned width -/
def wrapU (bits : Nat) (x : Int) : Int := x % 2 ^ bits
def band (a b : Int) : Int := Int.ofNat (a.toNat &&& b.toNat)
def bor (a b : Int) : Int := Int.ofNat (a.toNat ||| b.toNat)
def bxor (a b : Int) : Int := Int.ofNat (a.toNat ^^^ b.toNat)
def shl (a b : Int) : Int := a * 2 ^ b.toNat
def shr (a b : Int) : Int := a / 2 ^ b.toNat
/-- Go ` + "`/`" + `: truncating, panics on a zero divisor -/
def goDiv (a b : Int) : Except String Int := if b == 0 then throw "integer divide by zero" else pure (Int.tdiv a b)
def goMod (a b : Int) : Except String Int := if b == 0 then throw "integer divide by zero" else pure (Int.tmod a b)

`

func main() {
	repo := os.Args[1]
	fset := token.NewFileSet()
	pkgs, err := parser.ParseDir(fset, filepath.Join(repo, "engine"), func(fi os.FileInfo) bool {
		n := fi.Name()
		return !strings.HasSuffix(n, "_test.go") && (!strings.HasPrefix(n, "verif_") || n == "verif_nosync.go")
	}, parser.ParseComments)
	if err != nil {
		fmt.Fprintln(os.Stderr, err)
		os.Exit(2)
	}
	var files []*ast.File
	for _, p := range pkgs {
		var names []string
		for n := range p.Files {
			names = append(names, n)
		}
		sort.Strings(names)
		for _, n := range names {
			files = append(files, p.Files[n])
		}
	}
	conf := types.Config{Importer: importer.ForCompiler(fset, "source", nil)}
	info := &types.Info{Types: map[ast.Expr]types.TypeAndValue{}, Defs: map[*ast.Ident]types.Object{}, Uses: map[*ast.Ident]types.Object{},
		Selections: map[*ast.SelectorExpr]*types.Selection{}}
	if _, err := conf.Check("macsmol/magog/engine", fset, files, info); err != nil {
		fmt.Fprintln(os.Stderr, err)
		os.Exit(2)
	}
	t := &tr{fset: fset, info: info, funcs: map[string]*ast.FuncDecl{}, partial: map[string]bool{}, done: map[string]string{}, leanOf: map[string]string{}}
	for _, f := range files {
		for _, d := range f.Decls {
			if fd, ok := d.(*ast.FuncDecl); ok && fd.Body != nil {
				t.funcs[funcKey(fd)] = fd
			}
		}
	}
	for i := range whitelist {
		it := &whitelist[i]
		if it.Lean == "" {
			it.Lean = strings.ReplaceAll(it.Func, ".", "_")
		}
		if it.ExprVar == "" && it.StopBefore == "" {
			t.leanOf[it.Func] = it.Lean
		}
	}
	var b strings.Builder
	b.WriteString(prelude)
	var failed []string
	for i := range whitelist {
		it := &whitelist[i]
		def, e := t.translate(it)
		if e != "" {
			failed = append(failed, it.Lean)
			fmt.Fprintf(&b, "/-- Go: `%s` could not be translated: %s -/\ndef %s_untranslatable : String := %q\n\n", it.Func, e, it.Lean, e)
			continue
		}
		t.done[it.Lean] = def
		b.WriteString(def)
		b.WriteString("\n")
	}
	fmt.Fprintf(&b, "/-- names of whitelisted items the translator refused -/\ndef untranslatable : List String := [%s]\n\nend Magog.Gen.Fn\n",
		strings.Join(quoteAll(failed), ", "))
	fmt.Print(b.String())
}

func quoteAll(ss []string) []string {
	var o []string
	for _, s := range ss {
		o = append(o, fmt.Sprintf("%q", s))
	}
	return o
}
