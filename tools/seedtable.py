#!/usr/bin/env python3
"""prints the markdown table of confirmed seeded changes (seeded/*/meta.json) for DESIGN.md"""
import json, glob, os
rows = []
for p in sorted(glob.glob(os.path.join(os.path.dirname(os.path.dirname(os.path.abspath(__file__))), "seeded", "*", "meta.json"))):
    m = json.load(open(p))
    f = lambda s: str(s).replace("|", "/").replace("\n", " ")
    rows.append("| `{}` | {} | {} | {} |".format(m["id"], f(m["breaks"])[:220], f(m["needs_to_manifest"])[:160], f(m["result"])[:260]))
print("| seeded change | what it breaks | needs, to manifest | which check reported it |\n|---|---|---|---|")
print("\n".join(rows))

import sys, re
if "--update" in sys.argv:
    d = os.path.join(os.path.dirname(os.path.dirname(os.path.abspath(__file__))), "DESIGN.md")
    s = open(d).read()
    tab = "| seeded change | what it breaks | needs, to manifest | which check reported it |\n|---|---|---|---|\n" + "\n".join(rows) + "\n"
    s = re.sub(r"(<!-- SEEDTABLE BEGIN[^\n]*-->\n).*?(<!-- SEEDTABLE END -->)", lambda m: m.group(1) + tab + m.group(2), s, flags=re.S)
    open(d, "w").write(s)
