#!/bin/bash
# run every check of the given tier sequentially; prints one summary line per property
tier=${1:-quick}
shift
props=${@:-C01 C02 C03 C04 C05 C06 C07 C08 C09 C10 C11 C12 C13 C14 C15 C16 C17 C18 C19}
cd /verif
for p in $props; do
  s=$(date +%s)
  out=$(python3 tools/check.py $p --tier $tier 2>build/err_$p.log)
  rc=$?
  e=$(date +%s)
  echo "$p rc=$rc $((e-s))s $(echo "$out" | grep -c VIOLATION) violations $(echo "$out" | grep -c KNOWN-FINDING) known"
  echo "$out" | grep -E "VIOLATION|KNOWN" | head -5
done
