#!/usr/bin/env python3
"""C17 tie: differential test of the Lean model of the command interpreter (`Model.uciStep`, Magog/Model/Uci.lean)
against the real engine/uci.go.

Sessions of input lines (arbitrary bytes) are generated grammar-directed; every session is fed
  * to the model through the driver op `ucisess <hex> <hex> ...` of this copy's mdrv (state starts as in a fresh process),
  * to the real code through a fresh `/verif/build/hdrv` process, one `ucihex <hex line>` per line (hdrv keeps the
    engine's globals across lines). Lines with the prefix `go` are NOT sent to hdrv (the search is asynchronous);
    for them the model's event is compared with the existing, separately tied token-scanner op `goparams`.
Canonical comparison per line: (panic?, posGen snapshot incl. nil, printed output: exact text where the model
renders it, class of the text otherwise).

usage: uci_diff.py [--sessions N] [--seed S] [--workers W] [--verbose]
"""
import argparse, collections, os, random, re, subprocess, sys
from concurrent.futures import ThreadPoolExecutor

HERE = os.path.dirname(os.path.abspath(__file__))
VERIF = os.path.dirname(HERE)
MDRV = os.path.join(VERIF, "lean", ".lake", "build", "bin", "mdrv")
HDRV = os.path.join(VERIF, "build", "hdrv")

START = "rnbqkbnr/pppppppp/8/8/8/8/PPPPPPPP/RNBQKBNR w KQkq - 0 1"
FENS = [
    START,
    "r3k2r/p1ppqpb1/bn2pnp1/3PN3/1p2P3/2N2Q1p/PPPBBPPP/R3K2R w KQkq - 0 1",      # kiwipete
    "r3k2r/p1ppqpb1/bn2pnp1/3PN3/1p2P3/2N2Q1p/PPPBBPPP/R3K2R b KQkq - 0 1",
    "8/2p5/3p4/KP5r/1R3p1k/8/4P1P1/8 w - - 0 57",
    "rnbqkbnr/ppp1pppp/8/8/3pP3/8/PPPP1PPP/RNBQKBNR b KQkq e3 0 3",                # en passant available
    "rnbqkbnr/pppp1ppp/8/4pP2/8/8/PPPPP1PP/RNBQKBNR w KQkq e6 0 3",
    "4k3/P6P/8/8/8/8/p6p/4K3 w - - 0 1",                                             # promotions
    "4k3/P6P/8/8/8/8/p6p/4K3 b - - 0 1",
    "r3k2r/8/8/8/8/8/8/R3K2R w KQkq - 0 1",                                          # castling
    "r3k2r/8/8/8/8/8/8/R3K2R b KQkq - 5 40",
    "7k/5Q2/6K1/8/8/8/8/8 b - - 0 1",                                                # stalemate
    "7k/6Q1/6K1/8/8/8/8/8 b - - 0 1",                                                # checkmate
    "4k3/8/8/8/8/8/8/4K3 w - - 0 1",
    "4k3/8/8/8/8/8/8/4K3 b - - 99 9999",
    "1k6/p1p1p1p1/P1P1P1P1/8/8/p1p1p1p1/P1P1P1P1/1K6 w - - 0 1",
]
NUMS = ["0", "-1", "1", "2", "3", "9", "10", "11", "40", "41", "49", "50", "51", "199", "200", "250", "1000", "30000",
        "10000000", "10000001", "9223372036854775807", "9223372036854775808", "-9223372036854775808",
        "-9223372036854775809", "99999999999999999999", "+3", "+0", "-0", "x", "", "1x", "0x10", "1.5", " 1", "1e3", "١"]
WS = [b" ", b"  ", b"\t", b"\n", b"\r", b"\v", b"\f", b"\xc2\x85", b"\xc2\xa0", b"\xe1\x9a\x80", b"\xe2\x80\x80",
      b"\xe2\x80\x8a", b"\xe2\x80\xa8", b"\xe2\x80\xa9", b"\xe2\x80\xaf", b"\xe2\x81\x9f", b"\xe3\x80\x80",
      b"\x85", b"\xa0", b"\xe2\x80", b"\xe2\x80\x8b", b"\xc2"]
UNI_WS = [w for w in WS if len(w) > 1 and w not in (b"  ", b"\xe2\x80", b"\xe2\x80\x8b")]
ASCII_WS = b"\t\n\v\f\r "


def go_trim(b):
    """strings.TrimSpace on bytes (independent re-implementation: ASCII white space and the UTF-8 encodings of the
    non-ASCII members of unicode.IsSpace)"""
    changed = True
    while changed:
        changed = False
        if b and b[0] in ASCII_WS:
            b = b[1:]; changed = True; continue
        for w in UNI_WS:
            if b.startswith(w):
                b = b[len(w):]; changed = True; break
    changed = True
    while changed:
        changed = False
        if b and b[-1] in ASCII_WS:
            b = b[:-1]; changed = True; continue
        for w in UNI_WS:
            if b.endswith(w):
                b = b[:-len(w)]; changed = True; break
    return b


def run(binary, text, timeout=600):
    r = subprocess.run([binary], input=text.encode(), capture_output=True, timeout=timeout)
    return r.stdout.decode("utf-8", "replace").split("\n")


# ------------------------------------------------------------------------------------------------ legal move lists

def playouts(rng, n_per_fen=6):
    """legal move sequences from the specification's random playout (prebuilt op of mdrv)"""
    ops, keys = [], []
    for fen in FENS:
        for _ in range(n_per_fen):
            full0 = fen.split()[5]
            ops.append(f"playout\t{rng.randrange(1 << 30)}\t{rng.randint(1, 14)}\t{full0}\t{fen}")
            keys.append(fen)
    out = run(MDRV, "\n".join(ops) + "\n")
    games = collections.defaultdict(list)
    for fen, o in zip(keys, out):
        if o.startswith("ok "):
            mv = [x.split("=")[0] for x in o[3:].split(";") if x]
            if mv:
                games[fen].append(mv)
    return games


# ------------------------------------------------------------------------------------------------ line grammar

class Gen:
    def __init__(self, rng, games):
        self.rng = rng
        self.games = games

    def num(self):
        return self.rng.choice(NUMS)

    def sp(self):
        r = self.rng.random()
        if r < 0.8:
            return b" "
        return self.rng.choice(WS)

    def fen(self):
        return self.rng.choice(FENS)

    def bad_fen(self):
        rng = self.rng
        f = self.fen()
        k = rng.randrange(9)
        if k == 0:
            return f[: rng.randrange(len(f))]                      # truncated
        if k == 1:
            parts = f.split(" "); del parts[rng.randrange(len(parts))]; return " ".join(parts)
        if k == 2:
            i = rng.randrange(len(f)); return f[:i] + rng.choice("9xX/ kKpP-0") + f[i + 1:]
        if k == 3:
            return f + " extra"
        if k == 4:
            return f.replace(" ", "  ", 1)
        if k == 5:
            return rng.choice(["garbage", "", "fen", "8/8/8/8/8/8/8/8 w - - 0 1", "startpo", "k", "////// w - - 0 1"])
        if k == 6:
            parts = f.split(" "); parts[5] = rng.choice(NUMS); return " ".join(parts)
        if k == 7:
            parts = f.split(" "); parts[3] = rng.choice(["e3", "e6", "a9", "i3", "e", "-", "e33"]); return " ".join(parts)
        parts = f.split(" "); parts[2] = rng.choice(["KQkq", "K", "q", "-", "", "KK", "x"]); return " ".join(parts)

    def legal_moves(self, fen):
        g = self.games.get(fen)
        if not g:
            return []
        mv = self.rng.choice(g)
        return mv[: self.rng.randint(1, len(mv))]

    def position(self):
        """returns (line bytes, category, within_precondition)"""
        rng = self.rng
        k = rng.random()
        pre = True
        if k < 0.10:
            return b"position startpos", "position:startpos", True
        if k < 0.32:
            fen = START
            head = "startpos"
            cat = "position:startpos+moves"
        elif k < 0.42:
            fen = self.fen()
            return ("position " + rng.choice(["fen ", "", "fen  "]) + fen).encode(), "position:fen", True
        elif k < 0.62:
            fen = self.fen()
            head = rng.choice(["fen ", ""]) + fen
            cat = "position:fen+moves"
        elif k < 0.80:
            bad = self.bad_fen()
            tail = rng.choice(["", " moves e2e4", " moves", " moves e2e4 e7e5", "moves"])
            # a mutated FEN may still be accepted, and then the fixed tail need not be legal: precondition unknown
            return ("position " + rng.choice(["fen ", ""]) + bad + tail).encode(), "position:badfen" + ("+moves" if tail else ""), (None if tail else True)
        elif k < 0.90:
            s = rng.choice(["position", "position ", "positionstartpos", "position startposmoves e2e4", "position moves e2e4",
                            "position moves", "position fen", "position fen ", "position startpos moves", "position startpos moves ",
                            "position startpos  moves  e2e4", "position startpos moves e2e4  e7e5", "position startpos moves E2E4",
                            "position startpos moves e2e4 zz", "position startpos moves e2e",
                            "position startpos moves e2e4 e7e5 moves g1f3", "position startpos xyz moves e2e4", "positions",
                            "position\tstartpos", "position startpos moves e2e4", "position startpos　moves d2d4",
                            "position startpos moves e2e4 ", "position startpos moves e9e4", "position startpos moves i2e4",
                            "position startpos moves K2e4", "position startpos moves e2e4K"])
            return s.encode("utf-8"), "position:shape", True
        else:
            # outside the UCI precondition: syntactically valid but possibly illegal moves
            fen = self.fen() if rng.random() < 0.5 else START
            head = "startpos" if fen == START else "fen " + fen
            mv = self.legal_moves(fen)[: rng.randint(0, 3)]
            bad = rng.choice(["e2e4q", "e2e5", "a1a1", "e1e8", "h7h8", "a7a8x", "e7e8q", "d4d5", "e1g1", "e8c8", "a2a1q", "h1h8",
                              "".join(rng.choice("abcdefgh") + rng.choice("12345678") for _ in range(2))])
            return ("position " + head + " moves " + " ".join(mv + [bad])).encode(), "position:illegal-move(outside-Pre)", False
        mv = self.legal_moves(fen)
        toks = [m.upper() if rng.random() < 0.05 else m for m in mv]
        sep = b" "
        body = sep.join(t.encode() for t in toks)
        seps = [self.sp(), self.sp(), self.sp()]
        line = b"position" + seps[0] + head.encode() + seps[1] + b"moves" + seps[2] + body
        if rng.random() < 0.1:
            seps.append(rng.choice(WS))
            line += seps[-1]
        # a separator that Go's TrimSpace/Split does not treat as white space (a lone 0x85 / 0xA0 byte, a truncated
        # UTF-8 sequence, U+200B) glues itself to a neighbouring token and changes it (`g2h1r\x85` is no longer the
        # promotion g2h1r): the move list is then not the legal one it was generated from - precondition unknown
        if any(w != b" " and w not in UNI_WS and w not in (b"  ", b"\t", b"\n", b"\r", b"\v", b"\f") for w in seps):
            pre = None
        return line, cat, pre

    def go(self):
        rng = self.rng
        kws = ["wtime", "btime", "winc", "binc", "movestogo", "depth", "movetime", "infinite", "ponder", "xyz"]
        toks = []
        for kw in rng.sample(kws, rng.randint(0, 5)):
            toks.append(kw)
            if kw == "infinite":
                continue
            r = rng.random()
            if r < 0.75:
                toks.append(self.num())
            elif r < 0.85:
                toks.append("")
        sep = " " if rng.random() < 0.9 else rng.choice(["  ", "\t"])
        return ("go" + rng.choice([" ", " ", "", "\t", "  "]) + sep.join(toks)).encode("utf-8"), "go"

    def setoption(self):
        rng = self.rng
        k = rng.random()
        if k < 0.5:
            return ("setoption name currmoveLogInterval value " + self.num()).encode("utf-8"), "setoption:value"
        s = rng.choice(["setoption", "setoption ", "setoption name", "setoption name currmoveLogInterval",
                        "setoption name currmoveLogInterval value", "setoption name currmoveLogInterval value ",
                        "setoption name currmoveLogInterval value 20 30", "setoption name Hash value 16",
                        "setoption name  currmoveLogInterval value 20", "setoption name currmoveLogInterval  value 20",
                        "setoption Name currmoveLogInterval value 20", "setoption name currmoveLogInterval Value 20",
                        "setoption name currmovelogInterval value 20", "setoption value currmoveLogInterval name 20",
                        "setoption\tname currmoveLogInterval value 20", "setoption name\tcurrmoveLogInterval value 20",
                        "setoptionname currmoveLogInterval value 20", "setoption x y z", "setoption a b c d",
                        "setoption name currmoveLogInterval value 20\t", "setoption name currmoveLogInterval value 500"])
        return s.encode(), "setoption:shape"

    def perft(self, position_seen):
        rng = self.rng
        cmd = rng.choice(["perft", "tperft"])
        r = rng.random()
        if r < 0.45:
            d = rng.choice(["1", "2", "3"] if cmd == "perft" else ["1", "2", "3"])
            return (cmd + rng.choice([" ", " ", "  ", "\t", "", " "]) + d + rng.choice(["", "", " ", "\t"])).encode("utf-8"), cmd + ":valid"
        n = self.num()
        s = (cmd + rng.choice([" ", " ", "", "  "]) + n).encode("utf-8")
        return s, cmd + ":boundary"

    def simple(self):
        rng = self.rng
        if rng.random() < 0.7:
            s = rng.choice(["isready", "uci", "stop", "tostr", "eval", "help", "quit", "eval", "tostr", "isready"])
            return s.encode(), "simple:" + s
        s = rng.choice(["isready ", " isready", "Isready", "ISREADY", "evalx", "eval ", "stopp", "ucii", "uci ", "help me", "quit now",
                        "tostr ", "ucinewgame", "", " ", "\t", "ponderhit", "debug on", "register", "xyzzy", "stop\r", "isready\r"])
        return s.encode(), "simple:near-miss"

    def random_bytes(self):
        rng = self.rng
        n = rng.randint(0, 24)
        alphabet = rng.choice([list(range(256)), list(b"positngmvfe 0123456789/-\t"), list(range(0x20, 0x7f)), list(range(0x80, 0x100))])
        return bytes(rng.choice(alphabet) for _ in range(n)), "random-bytes"

    def mutate(self, line):
        rng = self.rng
        b = bytearray(line)
        for _ in range(rng.randint(1, 3)):
            k = rng.randrange(5)
            i = rng.randrange(len(b) + 1)
            if k == 0 and b:
                del b[min(i, len(b) - 1)]
            elif k == 1:
                b[i:i] = bytes([rng.randrange(256)])
            elif k == 2 and b:
                b[min(i, len(b) - 1)] = rng.randrange(256)
            elif k == 3:
                b[i:i] = rng.choice(WS)
            else:
                b = b[:i]
        return bytes(b)

    def line(self, position_seen):
        rng = self.rng
        r = rng.random()
        pre = True
        if r < 0.30:
            l, cat, pre = self.position()
        elif r < 0.42:
            l, cat = self.go()
        elif r < 0.54:
            l, cat = self.setoption()
        elif r < 0.70:
            l, cat = self.perft(position_seen)
        elif r < 0.86:
            l, cat = self.simple()
        elif r < 0.92:
            l, cat = self.random_bytes()
        else:
            base = rng.choice([self.position()[0], self.go()[0], self.setoption()[0], self.perft(position_seen)[0], self.simple()[0]])
            l, cat = self.mutate(base), "mutated"
            pre = None      # unknown: a mutation of a move list is checked a posteriori (see `moves_in_pre`)
        return l, cat, pre


def perft_depth(line):
    """depth a (t)perft line would run with, or None (Atoi of the trimmed argument, emulated)"""
    for cmd in (b"perft", b"tperft"):
        if line.startswith(cmd):
            arg = go_trim(line[len(cmd):])
            m = re.fullmatch(rb"[+-]?[0-9]+", arg)
            if not m:
                return None
            v = int(arg)
            return v if 0 < v < 200 else None
    return None


def make_session(gen, rng):
    lines = []
    position_seen = False
    n = rng.randint(2, 14)
    while len(lines) < n:
        l, cat, pre = gen.line(position_seen)
        d = perft_depth(l)
        if d is not None and d > 3 and position_seen:
            continue            # would run (practically) forever on both sides
        if l.startswith(b"position"):
            position_seen = True
        lines.append((l, cat, pre))
    return lines


# ------------------------------------------------------------------------------------------------ canonical outcomes

def canon_go_out(out):
    """class/payload of the real engine's stdout for one synchronous line"""
    if out == b"":
        return ("none",)
    return ("text", out)


def match_event(ev, out):
    """does the model's event (driver token) describe the real stdout `out`?"""
    if ev == "-":
        return out == b""
    if ev == "c:stop":
        return out == b""
    if ev.startswith("x:"):
        return bytes.fromhex(ev[2:]) == out
    if ev.startswith("c:eval:"):
        m = re.fullmatch(rb"(gamePhaseFactor: [^\n]*\n)?(-?[0-9]+)\n", out)
        return bool(m) and int(m.group(2)) == int(ev[7:])
    if ev == "c:text":
        return out.startswith("\n  ┃ a │".encode()) and b"PANIC" not in out
    if ev == "c:fmtpanic":
        return b"PANIC=" in out
    if ev == "c:help":
        return out.startswith(b"Available UCI commands:")
    if ev == "c:badfen":
        return out.startswith(b"invalid FEN: ") and out.count(b"\n") >= 1
    if ev == "c:badmoves":
        return out.startswith(b"Invalid position command: ")
    return False


def event_class(ev):
    if ev.startswith("x:"):
        t = bytes.fromhex(ev[2:])
        for k, name in ((b"readyok", "readyok"), (b"No position set to evaluate", "eval:no-position"), (b"id name", "uciinfo"),
                        (b"<nil>", "tostr:nil"), (b"Invalid depth", "perft:invalid-depth"), (b"No position set to count", "perft:no-position"),
                        (b"No position set to start", "go:no-position")):
            if t.startswith(k):
                return name
        return "perft:divide"
    if ev.startswith("c:eval"):
        return "eval:value"
    if ev.startswith("c:go"):
        return "go:search-started"
    return ev


def run_hdrv(lines):
    ops = "".join("ucihex\t" + l.hex() + "\n" for l in lines)
    try:
        out = run(HDRV, ops, timeout=120)
    except subprocess.TimeoutExpired:
        return None
    return out[: len(lines)]


def main():
    ap = argparse.ArgumentParser()
    ap.add_argument("--sessions", type=int, default=3000)
    ap.add_argument("--seed", type=int, default=17)
    ap.add_argument("--workers", type=int, default=8)
    ap.add_argument("--verbose", action="store_true")
    ap.add_argument("--json", help="write a machine-readable summary (used by tools/props.py check_C17)")
    a = ap.parse_args()
    rng = random.Random(a.seed)
    games = playouts(rng)
    gen = Gen(rng, games)
    sessions = [make_session(gen, rng) for _ in range(a.sessions)]

    # model: one op per session
    mops = "".join("ucisess\t" + "\t".join(l.hex() for l, _, _ in s) + "\n" for s in sessions)
    mout = run(MDRV, mops, timeout=3600)
    # real code: one process per session, `go` lines left out
    def real(s):
        return run_hdrv([l for l, _, _ in s if not l.startswith(b"go")])
    with ThreadPoolExecutor(max_workers=a.workers) as ex:
        rout = list(ex.map(real, sessions))

    stats = collections.Counter()
    cats = collections.Counter()
    classes = collections.Counter()
    mismatches = []
    go_checks = []        # (session idx, line idx, side, arg, model event)
    real_panics = []
    for si, (s, m, r) in enumerate(zip(sessions, mout, rout)):
        mres = m.split("\t") if m != "" else []
        if r is None:
            mismatches.append((si, -1, "hdrv timeout", "", ""))
            continue
        ri = 0
        prev_model_pos = "pos=nil"
        tainted = False     # an earlier line of this session was (or may have been) outside the UCI precondition
        for li, (l, cat, pre) in enumerate(s):
            stats["lines generated"] += 1
            cats[cat] += 1
            if li >= len(mres):
                stats["lines after a panic (not compared)"] += 1
                if not l.startswith(b"go"):
                    ri += 1
                continue
            mo = mres[li]
            m_panic = mo.startswith("panic")
            mm = re.match(r"ok (pos=nil|pos=\[(.*?)\]) srch=(\d) li=(-?\d+) quit=(\d) k=(\d) ev=(.*)$", mo)
            if not m_panic and not mm:
                mismatches.append((si, li, "unparsable model output", mo, ""))
                break
            if l.startswith(b"go"):
                stats["go lines (model vs goparams op)"] += 1
                if m_panic:
                    mismatches.append((si, li, "model panics on a go line", mo, l))
                    break
                classes[event_class(mm.group(7))] += 1
                go_checks.append((si, li, prev_model_pos, go_trim(l[2:]), mm.group(7)))
                continue
            ro = r[ri] if ri < len(r) else ""
            ri += 1
            stats["lines compared with the real code"] += 1
            if pre is False:
                stats["  of which outside the UCI precondition (illegal move in a move list)"] += 1
            r_panic = ro.startswith("panic")
            if tainted and pre is not False:
                stats["  of which after an outside-precondition line of the same session (position possibly corrupt)"] += 1
            if r_panic and tainted and pre is not False:
                pre = "tainted"
            if pre is False or (pre is None and l.startswith(b"position") and b"moves" in l):
                tainted = True
            if r_panic:
                # `ApplyUciMove` on a move that is not legal in its position: outside the UCI precondition
                # a move list of unknown legality (mutated line) on which the real engine panics: counted as outside
                # the precondition whatever the panic says - an illegal move can corrupt the position in many ways
                if pre is None and l.startswith(b"position") and b"moves" in l:
                    pre = False
                    stats["  of which outside the UCI precondition (illegal move in a move list)"] += 1
                real_panics.append((si, li, l, ro, pre, [x[0] for x in s[:li]]))
            if m_panic or r_panic:
                classes["panic (both)" if (m_panic and r_panic) else "panic (one side)"] += 1
                if m_panic != r_panic:
                    mismatches.append((si, li, "panic disagreement", mo, ro))
                # the real engine's state after a recovered panic is not meaningful: end of this session
                if not m_panic:
                    stats["lines after a panic (not compared)"] += len(s) - li - 1
                break
            rm = re.match(r"ok idx=(-?\d+) snap=\[(.*?)\] out=([0-9a-f]*)$", ro)
            if not rm:
                mismatches.append((si, li, "unparsable hdrv output", mo, ro))
                break
            idx, rsnap, rout_b = int(rm.group(1)), rm.group(2), bytes.fromhex(rm.group(3))
            mpos = mm.group(1)
            ok_pos = (mpos == "pos=nil" and idx == -1) or (mpos != "pos=nil" and idx == 0 and mm.group(2) == rsnap)
            ev = mm.group(7)
            ok_ev = match_event(ev, rout_b)
            classes[event_class(ev)] += 1
            if not ok_pos:
                mismatches.append((si, li, "position differs", mo, ro))
                break
            if not ok_ev:
                mismatches.append((si, li, "output differs", mo, ro + "  OUT=" + repr(rout_b[:200])))
                break
            prev_model_pos = mpos if mpos == "pos=nil" else mm.group(2)
        # prev_model_pos for go lines must be the model state BEFORE the go line: handled above (updated after each non-go line)

    # go lines: the model's event vs the goparams op (existing tie of doGo's scanner)
    gops = []
    for si, li, pos, arg, ev in go_checks:
        if pos == "pos=nil":
            continue
        f = int(re.search(r" f=(\d+) ", pos).group(1))
        gops.append(("b" if f & 1 == 0 else "w", arg, ev, si, li))
    gout = run(MDRV, "".join(f"goparams\t{side}\t{arg.hex()}\n" for side, arg, _, _, _ in gops)) if gops else []
    for (side, arg, ev, si, li), g in zip(gops, gout):
        want = "-" if g == "ok reject" else ("c:go:" + g[3:] if g.startswith("ok ") else g)
        if ev != want:
            mismatches.append((si, li, "go event differs from goparams", ev, g))
    for si, li, pos, arg, ev in go_checks:
        if pos == "pos=nil" and not ev.startswith("x:" + b"No position set to start search from\n".hex()):
            mismatches.append((si, li, "go without a position", ev, ""))

    print(f"sessions: {len(sessions)}  seed: {a.seed}")
    for k, v in sorted(stats.items(), key=lambda kv: kv[0].strip()):
        print(f"  {k}: {v}")
    print("distribution of generated lines by category:")
    for k, v in sorted(cats.items()):
        print(f"  {k:45s} {v}")
    print("distribution of compared lines by model outcome:")
    for k, v in sorted(classes.items()):
        print(f"  {k:45s} {v}")
    print(f"panics of the REAL code: {len(real_panics)}")
    seen = set()
    for si, li, l, ro, pre, ctx in real_panics:
        key = (l, ro[:60])
        if key in seen:
            continue
        seen.add(key)
        tag = {False: "outside Pre", "tainted": "after an outside-Pre line"}.get(pre, "INSIDE Pre: FINDING")
        if len(seen) <= 12 or pre not in (False, "tainted"):
            print(f"  [{tag}] line={l!r} -> {ro[:140]}")
            if pre not in (False, "tainted"):
                print("     session prefix:", [x for x in ctx])
    print("panics of the real code by kind:", dict(collections.Counter(
        {False: "outside Pre", "tainted": "after an outside-Pre line"}.get(x[4], "INSIDE Pre: FINDING") for x in real_panics)))
    print(f"disagreements: {len(mismatches)}")
    for si, li, what, mo, ro in mismatches[: 30 if not a.verbose else 10000]:
        s = sessions[si]
        print(f"  session {si} line {li}: {what}")
        print("    lines :", [x[0] for x in s[: li + 1]])
        print("    model :", str(mo)[:300])
        print("    real  :", str(ro)[:300])
    if a.json:
        import json
        inside = [{"line": l.hex(), "panic": ro[:200], "prefix": [x.hex() for x in ctx]}
                  for si, li, l, ro, pre, ctx in real_panics if pre not in (False, "tainted")]
        json.dump({"stats": dict(stats), "categories": dict(cats), "classes": dict(classes),
                   "mismatches": [{"what": what, "lines": [x[0].hex() for x in sessions[si][: li + 1]] if li >= 0 else [],
                                   "model": str(mo)[:400], "real": str(ro)[:400]} for si, li, what, mo, ro in mismatches[:20]],
                   "n_mismatches": len(mismatches), "real_panics_inside_pre": inside[:20]}, open(a.json, "w"))
    return 1 if mismatches else 0


if __name__ == "__main__":
    sys.exit(main())
