"""Shared infrastructure of the checks: build/prepare, driver batches, UCI sessions, evidence, replays."""
import fcntl, hashlib, json, os, queue, random, re, select, shutil, signal, subprocess, sys, tempfile, threading, time

VERIF = os.path.dirname(os.path.dirname(os.path.abspath(__file__)))
REPO = os.environ.get("VERIF_REPO", "/repo")
BUILD = os.path.join(VERIF, "build")
LEAN = os.path.join(VERIF, "lean")
HDRV = os.path.join(BUILD, "hdrv")
MAGOG = os.path.join(BUILD, "magog")
MAGOG_RACE = os.path.join(BUILD, "magog_race")
MDRV = os.path.join(LEAN, ".lake", "build", "bin", "mdrv")
NCPU = os.cpu_count() or 4

GOENV = dict(os.environ, GOFLAGS="-mod=mod", GOPROXY="off", GOSUMDB="off", GOTOOLCHAIN="local",
             CGO_ENABLED=os.environ.get("CGO_ENABLED", "0"))

START_FEN = "rnbqkbnr/pppppppp/8/8/8/8/PPPPPPPP/RNBQKBNR w KQkq - 0 1"
KIWI_FEN = "r3k2r/p1ppqpb1/bn2pnp1/3PN3/1p2P3/2N2Q1p/PPPBBPPP/R3K2R w KQkq - 0 1"


def log(*a):
    print(*a, file=sys.stderr, flush=True)


def sh(cmd, cwd=None, env=None, timeout=None, check=False):
    p = subprocess.run(cmd, cwd=cwd, env=env, timeout=timeout, stdout=subprocess.PIPE, stderr=subprocess.STDOUT, text=True)
    if check and p.returncode != 0:
        raise RuntimeError(f"command failed: {cmd}\n{p.stdout}")
    return p.returncode, p.stdout


class BuildError(Exception):
    pass


class LeanBuildError(Exception):
    def __init__(self, target, output):
        super().__init__(f"lake build {target} failed")
        self.target = target
        self.output = output


_prepared = {}


def lock():
    os.makedirs(BUILD, exist_ok=True)
    f = open(os.path.join(BUILD, "lock"), "w")
    fcntl.flock(f, fcntl.LOCK_EX)
    return f


def repo_fingerprint():
    h = hashlib.sha256()
    for root, dirs, files in os.walk(REPO):
        dirs[:] = sorted(d for d in dirs if d not in (".git", ".vscode", "testData"))
        for fn in sorted(files):
            if fn.endswith(".go") or fn in ("go.mod", "go.sum"):
                p = os.path.join(root, fn)
                h.update(p.encode())
                with open(p, "rb") as f:
                    h.update(f.read())
    for root, dirs, files in os.walk(os.path.join(VERIF, "harness")):
        for fn in sorted(files):
            p = os.path.join(root, fn)
            h.update(p.encode())
            with open(p, "rb") as f:
                h.update(f.read())
    return h.hexdigest()


def prepare(lean_targets=(), need_race=False):
    """Rebuild everything from REPO's current working tree: extractor facts, Go harness and engine binary
    (tag verif), run-time dump, generated Lean facts, Lean driver and the requested proof modules.
    Returns a dict with facts and the Lean build result per target."""
    lk = lock()
    try:
        t0 = time.time()
        fp = repo_fingerprint()
        stamp = os.path.join(BUILD, "stamp.json")
        prev = {}
        if os.path.exists(stamp):
            try:
                prev = json.load(open(stamp))
            except Exception:
                prev = {}
        modfile = os.path.join(BUILD, "harness.mod")
        with open(modfile, "w") as f:
            f.write(f"module verifharness\n\ngo 1.21.5\n\nrequire macsmol/magog v0.0.0\n\nreplace macsmol/magog => {REPO}\n")
        open(os.path.join(BUILD, "harness.sum"), "w").close()
        harness = os.path.join(VERIF, "harness")
        fresh = prev.get("fp") == fp and all(os.path.exists(p) for p in (HDRV, MAGOG, os.path.join(BUILD, "extract"), os.path.join(BUILD, "go2lean"),
                                                                       os.path.join(BUILD, "facts.json"), os.path.join(BUILD, "dump.json"),
                                                                       os.path.join(BUILD, "Funcs.lean")))
        if not fresh:
            rc, out = sh(["go", "build", "-modfile", modfile, "-o", os.path.join(BUILD, "extract"), "./cmd/extract"], cwd=harness, env=GOENV)
            if rc != 0:
                raise BuildError("extractor build failed:\n" + out)
            rc, out = sh([os.path.join(BUILD, "extract"), REPO], env=GOENV)
            if rc != 0:
                raise BuildError("extractor failed:\n" + out)
            with open(os.path.join(BUILD, "facts.json"), "w") as f:
                f.write(out)
            # T0: translator Go -> Lean for the pure functions in its whitelist (harness/cmd/go2lean)
            rc, out = sh(["go", "build", "-modfile", modfile, "-o", os.path.join(BUILD, "go2lean"), "./cmd/go2lean"], cwd=harness, env=GOENV)
            if rc != 0:
                raise BuildError("translator build failed:\n" + out)
            p = subprocess.run([os.path.join(BUILD, "go2lean"), REPO], stdout=subprocess.PIPE, stderr=subprocess.PIPE, text=True, env=GOENV)
            if p.returncode != 0 or "end Magog.Gen.Fn" not in p.stdout:
                raise BuildError("translator failed (does the repository still type-check?):\n" + p.stderr[-2000:])
            with open(os.path.join(BUILD, "Funcs.lean"), "w") as f:
                f.write(p.stdout)
            rc, out = sh(["go", "build", "-modfile", modfile, "-tags", "verif", "-o", HDRV, "./cmd/hdrv"], cwd=harness, env=GOENV)
            if rc != 0:
                raise BuildError("hdrv build failed (does the repository still compile with -tags verif?):\n" + out)
            rc, out = sh(["go", "build", "-tags", "verif", "-o", MAGOG, "."], cwd=REPO, env=GOENV)
            if rc != 0:
                raise BuildError("engine build failed:\n" + out)
            p = subprocess.run([HDRV], input="dump\n", stdout=subprocess.PIPE, text=True)
            if not p.stdout.startswith("ok "):
                raise BuildError("run-time dump failed: " + p.stdout[:200])
            with open(os.path.join(BUILD, "dump.json"), "w") as f:
                f.write(p.stdout[3:])
            if os.path.exists(MAGOG_RACE):
                os.remove(MAGOG_RACE)
            json.dump({"fp": fp}, open(stamp, "w"))
        if need_race and not os.path.exists(MAGOG_RACE):
            env = dict(GOENV, CGO_ENABLED="1")
            rc, out = sh(["go", "build", "-race", "-tags", "verif", "-o", MAGOG_RACE, "."], cwd=REPO, env=env)
            if rc != 0:
                log("race build unavailable:", out[:300])
        rc, out = sh([sys.executable, os.path.join(VERIF, "tools", "gen_lean.py"), os.path.join(BUILD, "facts.json"),
                      os.path.join(BUILD, "dump.json"), os.path.join(LEAN, "Magog", "Generated")])
        if rc != 0:
            raise BuildError("gen_lean failed:\n" + out)
        gen_changed = out.strip()
        # translated functions: written only when the text changes (lake traces by content anyway)
        new = open(os.path.join(BUILD, "Funcs.lean")).read()
        fpath = os.path.join(LEAN, "Magog", "Generated", "Funcs.lean")
        if not os.path.exists(fpath) or open(fpath).read() != new:
            with open(fpath, "w") as f:
                f.write(new)
            gen_changed = gen_changed.replace("changed: none", "changed: Funcs") if "changed: none" in gen_changed else gen_changed + ",Funcs"
        facts = json.load(open(os.path.join(BUILD, "facts.json")))
        res = {"facts": facts, "gen": gen_changed, "lean": {}, "prepare_s": 0.0}
        # driver first (model + spec); then proof modules
        rc, out = sh(["lake", "build", "mdrv"], cwd=LEAN)
        res["lean"]["mdrv"] = (rc, out)
        for t in lean_targets:
            rc, out = sh(["lake", "build", t], cwd=LEAN)
            res["lean"][t] = (rc, out)
        res["prepare_s"] = time.time() - t0
        return res
    finally:
        lk.close()


# ----------------------------------------------------------------------------------------------
# driver batches

def _run_one(binary, ops, timeout_per_op=20.0, env=None):
    """Feed ops to a line-protocol driver; robust against crashes and hangs: an op that kills or hangs the
    process yields 'crash <detail>' and the rest continues in a fresh process. The time limit is per operation
    (the drivers flush one result line per op): the clock restarts whenever a result line arrives."""
    import selectors
    out = [None] * len(ops)
    i = 0
    while i < len(ops):
        errf = tempfile.TemporaryFile()
        p = subprocess.Popen([binary], stdin=subprocess.PIPE, stdout=subprocess.PIPE, stderr=errf, env=env)
        data = ("\n".join(ops[i:]) + "\n").encode()

        def feed(proc=p, payload=data):
            try:
                proc.stdin.write(payload)
                proc.stdin.close()
            except (BrokenPipeError, OSError, ValueError):
                pass
        wt = threading.Thread(target=feed, daemon=True)
        wt.start()
        sel = selectors.DefaultSelector()
        sel.register(p.stdout, selectors.EVENT_READ)
        fd = p.stdout.fileno()
        buf = b""
        start_i = i
        timed_out = False
        eof = False
        limit = max(timeout_per_op, 5.0)
        deadline = time.time() + limit + 10.0      # process start-up allowance for the first op
        while i < len(ops) and not eof:
            left = deadline - time.time()
            if left <= 0:
                timed_out = True
                break
            if not sel.select(timeout=min(left, 1.0)):
                continue
            chunk = os.read(fd, 1 << 16)
            if not chunk:
                eof = True
                break
            buf += chunk
            while i < len(ops):
                k = buf.find(b"\n")
                if k < 0:
                    break
                out[i] = buf[:k].decode("utf-8", "replace")
                buf = buf[k + 1:]
                i += 1
                deadline = time.time() + limit
        sel.close()
        if timed_out or i < len(ops):
            p.kill()
        try:
            p.wait(timeout=10)
        except subprocess.TimeoutExpired:
            p.kill()
            p.wait()
        try:
            p.stdout.close()
        except OSError:
            pass
        wt.join(timeout=5)
        if i < len(ops):
            if p.returncode == 0 and not timed_out and i == start_i:
                # driver produced nothing at all: avoid looping forever
                out[i] = "crash no-output"
            else:
                errf.seek(0)
                tail = errf.read().decode("utf-8", "replace").strip().split("\n")
                first = next((l for l in tail if l.startswith(("panic", "fatal error", "runtime:"))), tail[0] if tail else "")
                out[i] = ("crash hang" if timed_out else "crash " + first[:160])
            i += 1
        errf.close()
    return out


def run_batch(binary, ops, shards=None, timeout_per_op=20.0, env=None):
    """Sharded batch. The Lean driver (model and specification) does not depend on /repo, so an operation of it
    that exceeds the time limit says nothing about the engine (it happens under machine load): it is run again
    alone with a long limit before the result 'crash hang' is handed to the caller."""
    out = _run_batch(binary, ops, shards, timeout_per_op, env)
    if binary == MDRV:
        for i, r in enumerate(out):
            if r == "crash hang":
                out[i] = _run_one(binary, [ops[i]], max(300.0, 4 * timeout_per_op), env)[0]
    return out


def _run_batch(binary, ops, shards=None, timeout_per_op=20.0, env=None):
    if not ops:
        return []
    shards = shards or min(NCPU, max(1, len(ops) // 200))
    if shards <= 1:
        return _run_one(binary, ops, timeout_per_op, env)
    chunks = [[] for _ in range(shards)]
    for idx, op in enumerate(ops):
        chunks[idx % shards].append(op)
    results = [None] * shards

    def work(k):
        results[k] = _run_one(binary, chunks[k], timeout_per_op, env)
    ths = [threading.Thread(target=work, args=(k,)) for k in range(shards)]
    for t in ths:
        t.start()
    for t in ths:
        t.join()
    out = [None] * len(ops)
    for k in range(shards):
        for j, r in enumerate(results[k]):
            out[j * shards + k] = r
    return out


def canon(line):
    """canonical outcome: panics and crashes compare by class only"""
    if line is None:
        return "none"
    if line.startswith("panic") or line.startswith("crash"):
        return "panic"
    return line


def hexs(s):
    if isinstance(s, str):
        s = s.encode("utf-8", "surrogateescape")
    return s.hex()


# ----------------------------------------------------------------------------------------------
# UCI sessions with the real binary

class Session:
    def __init__(self, env=None, binary=None, stderr_file=None):
        e = dict(os.environ)
        if env:
            e.update(env)
        self.stderr_path = stderr_file or tempfile.mktemp(prefix="sess", suffix=".err", dir=BUILD)
        self.errf = open(self.stderr_path, "wb")
        self.p = subprocess.Popen([binary or MAGOG], stdin=subprocess.PIPE, stdout=subprocess.PIPE, stderr=self.errf, env=e)
        self.q = queue.Queue()
        self.lines = []
        self.t = threading.Thread(target=self._reader, daemon=True)
        self.t.start()
        self.sent = []

    def _reader(self):
        for raw in self.p.stdout:
            self.q.put((time.time(), raw.decode("utf-8", "replace").rstrip("\n")))
        self.q.put((time.time(), None))

    def send(self, line):
        self.sent.append(line)
        try:
            data = line if isinstance(line, bytes) else line.encode("utf-8", "surrogateescape")
            self.p.stdin.write(data + b"\n")
            self.p.stdin.flush()
            return True
        except (BrokenPipeError, OSError):
            return False

    def read_until(self, pred, timeout):
        """collect output lines until pred(line) or EOF or timeout; returns (lines, status) with status in
        {'match','eof','timeout'}"""
        got = []
        end = time.time() + timeout
        while True:
            rem = end - time.time()
            if rem <= 0:
                return got, "timeout"
            try:
                ts, l = self.q.get(timeout=rem)
            except queue.Empty:
                return got, "timeout"
            if l is None:
                return got, "eof"
            self.lines.append(l)
            got.append(l)
            if pred(l):
                return got, "match"

    def drain(self, quiet=0.05):
        got = []
        while True:
            try:
                ts, l = self.q.get(timeout=quiet)
            except queue.Empty:
                return got
            if l is None:
                return got
            self.lines.append(l)
            got.append(l)

    def alive(self):
        return self.p.poll() is None

    def close_stdin(self):
        try:
            self.p.stdin.close()
        except Exception:
            pass

    def wait_exit(self, timeout):
        try:
            return self.p.wait(timeout=timeout)
        except subprocess.TimeoutExpired:
            return None

    def cpu_time(self):
        try:
            with open(f"/proc/{self.p.pid}/stat") as f:
                parts = f.read().split()
            return (int(parts[13]) + int(parts[14])) / os.sysconf("SC_CLK_TCK")
        except Exception:
            return None

    def stderr_text(self):
        try:
            self.errf.flush()
            with open(self.stderr_path, "rb") as f:
                return f.read().decode("utf-8", "replace")
        except Exception:
            return ""

    def kill(self):
        try:
            self.p.kill()
        except Exception:
            pass
        try:
            self.p.wait(timeout=5)
        except Exception:
            pass
        try:
            self.errf.close()
            os.remove(self.stderr_path)
        except Exception:
            pass


def crash_class(stderr_text):
    for l in stderr_text.split("\n"):
        if l.startswith("panic:") or l.startswith("fatal error:"):
            return l.strip()[:200]
    return ""


def parallel_map(fn, items, workers=None):
    workers = workers or NCPU
    out = [None] * len(items)
    idx = {"i": 0}
    lk = threading.Lock()

    def work():
        while True:
            with lk:
                i = idx["i"]
                if i >= len(items):
                    return
                idx["i"] += 1
            try:
                out[i] = fn(items[i])
            except Exception as e:  # pragma: no cover
                out[i] = ("error", repr(e))
    ths = [threading.Thread(target=work) for _ in range(min(workers, max(1, len(items))))]
    for t in ths:
        t.start()
    for t in ths:
        t.join()
    return out


# ----------------------------------------------------------------------------------------------
# info-line parsing (strict UCI grammar for what this engine prints)

INFO_DEPTH_RE = re.compile(r"^info depth (\d+) score (cp -?\d+|mate -?\d+) nps (-?\d+) time (-?\d+) nodes (\d+) pv ((?:[a-h][1-8][a-h][1-8][qrbn]?)(?: [a-h][1-8][a-h][1-8][qrbn]?)*) ?$")
INFO_SCORE_RE = re.compile(r"^info score (cp -?\d+|mate -?\d+) depth (\d+) nps (-?\d+) time (-?\d+) nodes (\d+) pv ((?:[a-h][1-8][a-h][1-8][qrbn]?)(?: [a-h][1-8][a-h][1-8][qrbn]?)*) ?$")
INFO_CURR_RE = re.compile(r"^info currmove ([a-h][1-8][a-h][1-8][qrbn]?) currmovenumber (\d+) nodes (\d+) time (-?\d+) nps (-?\d+)$")
BESTMOVE_RE = re.compile(r"^bestmove ([a-h][1-8][a-h][1-8][qrbn]?|0000)$")


def parse_info(line):
    m = INFO_DEPTH_RE.match(line)
    if m:
        return {"kind": "depth", "depth": int(m.group(1)), "score": m.group(2), "nodes": int(m.group(5)), "pv": m.group(6).split()}
    m = INFO_SCORE_RE.match(line)
    if m:
        return {"kind": "score", "depth": int(m.group(2)), "score": m.group(1), "nodes": int(m.group(5)), "pv": m.group(6).split()}
    m = INFO_CURR_RE.match(line)
    if m:
        return {"kind": "currmove", "move": m.group(1), "number": int(m.group(2)), "nodes": int(m.group(3))}
    return None


# ----------------------------------------------------------------------------------------------
# evidence / replays / known findings

def write_replay(prop, payload):
    d = os.path.join(VERIF, "replays")
    os.makedirs(d, exist_ok=True)
    blob = json.dumps(payload, sort_keys=True, indent=1)
    h = hashlib.sha256(blob.encode()).hexdigest()[:12]
    path = os.path.join(d, f"{prop}-{h}.json")
    with open(path, "w") as f:
        f.write(blob)
    return path


def load_known():
    p = os.path.join(VERIF, "known_findings.json")
    if not os.path.exists(p):
        return []
    return json.load(open(p)).get("findings", [])


def write_evidence(prop, tier, seed, coverage, wall_s, violations, assumptions, level="proof"):
    # runs against a deliberately modified tree (tools/seedtest.sh) must not overwrite the evidence of the unchanged tree
    evdir = os.environ.get("VERIF_EVIDENCE_DIR") or os.path.join(VERIF, "evidence")
    os.makedirs(evdir, exist_ok=True)
    ev = {"property_id": prop, "tier": tier, "seed": seed, "level": level, "coverage": coverage,
          "assumptions": assumptions, "wall_s": round(wall_s, 2), "violations": violations}
    with open(os.path.join(evdir, f"{prop}.json"), "w") as f:
        json.dump(ev, f, indent=1)
    return ev
