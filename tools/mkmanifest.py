#!/usr/bin/env python3
"""Regenerates /verif/MANIFEST.json from the table below and the current state of the Lean proof modules
(a property whose Props module has no theorem yet is claimed as exploration, not proof)."""
import json, os, re, sys

VERIF = os.path.dirname(os.path.dirname(os.path.abspath(__file__)))

sys.path.insert(0, os.path.join(VERIF, "tools"))
from proptexts import TEXTS  # noqa: E402


def theorems(prop):
    d = os.path.join(VERIF, "lean", "Magog", "Props")
    out = []
    mods = sorted(fn for fn in os.listdir(d) if fn.endswith(".lean") and fn.startswith(prop) and (fn == prop + ".lean" or fn[len(prop)].isalpha()))
    for fn in sorted(mods, key=lambda x: (x != prop + ".lean", x)):
        src = open(os.path.join(d, fn)).read()
        src = re.sub(r"/-.*?-/", "", src, flags=re.S)
        src = re.sub(r"--.*", "", src)
        out += re.findall(r"^theorem\s+([A-Za-z0-9_.']+)", src, flags=re.M)
    cap = os.path.join(d, "Capstone.lean")
    if os.path.exists(cap):
        src = open(cap).read()
        src = re.sub(r"/-.*?-/", "", src, flags=re.S)
        src = re.sub(r"--.*", "", src)
        out += [n for n in re.findall(r"^theorem\s+([A-Za-z0-9_.']+)", src, flags=re.M) if n.startswith(prop + "_")]
    return out


def main():
    checks = []
    for prop in sorted(TEXTS):
        t = TEXTS[prop]
        ths = theorems(prop)
        cat = "proof" if ths else "exploration"
        text = t["text"]
        if ths:
            text = f"Lean 4 theorems ({len(ths)}: {', '.join(ths[:14])}{', …' if len(ths) > 14 else ''}) about the model, re-checked on every run against facts regenerated from the source; " + text
        else:
            text = "no theorem for this property is finished yet, so it is claimed as exploration: " + text
        checks.append({
            "property_id": prop,
            "quick_cmd": f"python3 tools/check.py {prop} --tier quick",
            "thorough_cmd": f"python3 tools/check.py {prop} --tier thorough",
            "evidence_file": f"/verif/evidence/{prop}.json",
            "replay_cmd_template": f"python3 tools/check.py {prop} --replay {{path}}",
            "engine": "lean-proof+correspondence",
            "level_claimed": {"category": cat, "text": text, "design_ref": t["design_ref"]},
            "level_note": t["note"],
            "technique": t["technique"],
        })
    man = {
        "version": 1,
        "setup_cmd": "python3 tools/setup.py",
        "hooks": {
            "guard": "verif",
            "enable": "go build -tags verif (engine/verif_access.go, engine/verif_sync.go are //go:build verif; engine/verif_nosync.go provides empty hook bodies otherwise; VERIF_STABLE_SORT=1 additionally makes move ordering a stable sort for the exact trace correspondence)",
            "baseline_off_cmd": "cd /repo && go build ./... && go test -vet=off -count=1 -json -timeout 25m ./...",
            "source_commits": ["6489b42", "37031dc", "07471b8", "ddc255a"],
            "add_only": True,
        },
        "engines": [
            {"name": "lean-proof+correspondence", "path": "/verif/lean, /verif/harness, /verif/tools",
             "serves_properties": sorted(TEXTS),
             "kind_free_text": "Lean 4 model + specification + theorems (lake build, #print axioms audit, leanchecker in thorough); T0 pure functions translated Go->Lean by harness/cmd/go2lean and tied to the model by theorems (Props/*Tie); T1 facts regenerated from the Go source by harness/cmd/extract + tools/gen_lean.py; T2 correspondence Go (hooks, -tags verif) vs compiled Lean model driver vs Lean specification, orchestrated by tools/check.py"}
        ],
        "checks": checks,
        "not_applicable": [],
        "notes": "All properties are decided by the same framework (DESIGN.md). A broken proof obligation or correspondence triggers a search for a concrete failing input against the Lean specification; see DESIGN §4. Genuine defects found on the original tree were repaired by `fix:` commits in /repo and are listed as fixed in known_findings.json; one genuine deviation is recorded there as known instead of repaired (C08: five lenient FEN field forms are accepted, DESIGN 11.2) and is printed as KNOWN-FINDING lines by the C08 check.",
    }
    with open(os.path.join(VERIF, "MANIFEST.json"), "w") as f:
        json.dump(man, f, indent=1)
    print("MANIFEST.json written:", {c["property_id"]: c["level_claimed"]["category"] for c in checks})


if __name__ == "__main__":
    main()
