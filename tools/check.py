#!/usr/bin/env python3
"""Orchestrator: `check.py <property-id> --tier quick|thorough [--replay file]`.

For the property: (1) rebuild facts, harness, engine and the Lean proof module from the repository's
current working tree; (2) run the property's correspondences (Go implementation vs Lean model, T2) and
the direct sweep (Go implementation vs Lean specification); (3) audit the proof module (axioms, sorry);
(4) report per the interface and write evidence/<id>.json."""
import argparse, json, os, random, sys, time, traceback

sys.path.insert(0, os.path.dirname(os.path.abspath(__file__)))
import infra
from infra import log
import props


def main():
    ap = argparse.ArgumentParser()
    ap.add_argument("prop")
    ap.add_argument("--tier", default=os.environ.get("VERIF_TIER", "quick"))
    ap.add_argument("--replay")
    args = ap.parse_args()
    seed = int(os.environ.get("VERIF_SEED", "1"))
    tier = args.tier if args.tier in ("quick", "thorough") else "quick"
    prop = args.prop
    if prop not in props.CHECKS:
        print(f"unknown property {prop}")
        sys.exit(2)
    t0 = time.time()
    ctx = props.Ctx(prop, tier, seed)
    try:
        if args.replay:
            rc = props.replay(ctx, args.replay)
            sys.exit(rc)
        props.run(ctx)
    except infra.BuildError as e:
        # the repository (or the harness against it) does not build: nothing can be checked
        path = infra.write_replay(prop, {"property": prop, "kind": "unproved", "what": "build", "message": str(e)[:4000]})
        ctx.violations.append(path)
        print(f"VIOLATION property={prop} replay={path} no-failing-input-found")
    except Exception:
        tb = traceback.format_exc()
        log(tb)
        path = infra.write_replay(prop, {"property": prop, "kind": "unproved", "what": "checker-exception", "message": tb[-4000:]})
        ctx.violations.append(path)
        print(f"VIOLATION property={prop} replay={path} no-failing-input-found")
    wall = time.time() - t0
    ctx.finish(wall)
    sys.exit(1 if ctx.violations else 0)


if __name__ == "__main__":
    main()
