"""Per-property checks (correspondences T2, direct spec sweeps, proof audit)."""
import hashlib, json, os, random, re, subprocess, sys, time
import infra, gens
from infra import (log, run_batch, canon, HDRV, MDRV, MAGOG, VERIF, LEAN, BUILD, REPO, START_FEN, KIWI_FEN, Session,
                   parallel_map, parse_info, BESTMOVE_RE, hexs)

ALLOWED_AXIOMS = {"propext", "Classical.choice", "Quot.sound"}
FORBIDDEN = re.compile(r"\bsorry\b|\badmit\b|^\s*axiom\s|native_decide|bv_decide|implemented_by|\bunsafe\s|maxHeartbeats\s+0\b|@\[extern")

TRUSTED_BASE = [
    "Lean 4 kernel (lake build; leanchecker re-check in the thorough tier)",
    "axioms limited to propext, Classical.choice, Quot.sound (audited per theorem with #print axioms)",
    "specification modules Magog/Spec/*.lean (rules of chess, minimax, mate, protocol) are definitions, trusted as the meaning of the property",
    "T1 extractor (harness/cmd/extract, tools/gen_lean.py): transcribes constants and tables from the Go source; cross-checked against the run-time dump every run",
    "T2 correspondence: differential testing of the hand-written Lean model against the Go code through build-tag hooks; the only link for control flow",
    "Go toolchain, Lean compiler and run time executing model and spec, Python orchestrator",
]


class Ctx:
    def __init__(self, prop, tier, seed):
        self.prop, self.tier, self.seed = prop, tier, seed
        self.rng = random.Random(seed * 1000003 + int(hashlib.sha256(prop.encode()).hexdigest()[:6], 16))
        self.quick = tier == "quick"
        self.violations = []
        self.evaluations = 0
        self.distinct = set()
        self.samples = []
        self.dist = {}
        self.co = {}
        self.obligations = 0
        self.discharged = 0
        self.theorems = []
        self.checker_cmd = ""
        self.notes = []
        self.known = infra.load_known()
        self.known_hit = set()
        self.prep = None
        self.escalated = False

    # ---- accounting
    def case(self, key, nontrivial=True):
        self.evaluations += 1
        if nontrivial:
            self.distinct.add(hashlib.sha256(key.encode("utf-8", "replace")).digest()[:8])

    def bump(self, name, k=1):
        self.dist[name] = self.dist.get(name, 0) + k

    def sample(self, s):
        if len(self.samples) < 12:
            self.samples.append(s)

    def size(self, quick, thorough):
        n = quick if self.quick else thorough
        if self.quick and self.escalated:
            n = min(thorough, quick * 8)
        return n

    # ---- reporting
    def violation(self, witness_key, payload, found=True):
        """witness_key: canonical string identifying the failing input (used to match known findings)"""
        for k in self.known:
            if k.get("status") == "known" and k.get("property") == self.prop and k.get("key") == witness_key:
                if witness_key not in self.known_hit:
                    self.known_hit.add(witness_key)
                    print(f"KNOWN-FINDING: property={self.prop} {k.get('what', witness_key)}")
                return None
        if len(self.violations) >= 5:
            return None
        payload = dict(payload, property=self.prop, seed=self.seed, tier=self.tier, witness_key=witness_key,
                       replay_cmd=f"python3 tools/check.py {self.prop} --replay <this file>")
        path = infra.write_replay(self.prop, payload)
        self.violations.append(path)
        print(f"VIOLATION property={self.prop} replay={path}" + ("" if found else " no-failing-input-found"), flush=True)
        return path

    def finish(self, wall):
        cov = {
            "obligations": max(self.obligations, 1),
            "discharged": self.discharged if self.obligations else 0,
            "checker_cmd": self.checker_cmd or f"cd /verif/lean && lake build Magog.Props.{self.prop}",
            "trusted_base": TRUSTED_BASE,
            "theorems": self.theorems,
            "evaluations": max(self.evaluations, 1),
            "distinct_nontrivial": len(self.distinct),
            "rule": CHECKS[self.prop].get("rule", ""),
            "samples": self.samples or ["(no correspondence cases in this run)"],
            "input_distribution": self.dist,
            "correspondences": self.co,
            "notes": self.notes,
            "lean_generated_changed": (self.prep or {}).get("gen", ""),
            "prepare_s": round((self.prep or {}).get("prepare_s", 0.0), 1),
        }
        level = "proof" if self.obligations > 0 else "exploration"
        if level == "exploration":
            for k in ("obligations", "discharged"):
                cov.pop(k, None)
            cov["distinct_nontrivial"] = max(cov["distinct_nontrivial"], 0)
        infra.write_evidence(self.prop, self.tier, self.seed, cov, wall, len(self.violations), CHECKS[self.prop].get("assumptions", []), level=level)


# --------------------------------------------------------------------------------------------------
# proof audit

def strip_comments(src):
    src = re.sub(r"/-.*?-/", "", src, flags=re.S)
    src = re.sub(r"--.*", "", src)
    return src


def lean_sources():
    out = []
    for root, dirs, files in os.walk(os.path.join(LEAN, "Magog")):
        for fn in files:
            if fn.endswith(".lean"):
                out.append(os.path.join(root, fn))
    return out


def prop_modules(prop):
    """proof modules of a property: Props/<prop>.lean plus companion files Props/<prop><Suffix>.lean"""
    d = os.path.join(LEAN, "Magog", "Props")
    mods = sorted(fn[:-5] for fn in os.listdir(d) if fn.endswith(".lean") and fn.startswith(prop) and (fn == prop + ".lean" or fn[len(prop)].isalpha()))
    mods = [prop] + [m for m in mods if m != prop] if prop in mods else mods
    # the capstone module (statements in the terms of the rules of chess) holds theorems of several properties,
    # named `<prop>_...`; it is audited with each of them
    cap = os.path.join(d, "Capstone.lean")
    if os.path.exists(cap) and re.search(r"^theorem\s+%s_" % re.escape(prop), strip_comments(open(cap).read()), flags=re.M):
        mods.append("Capstone")
    return mods


def audit_proofs(ctx):
    """lake build result + theorem list + #print axioms + forbidden-token grep (+ leanchecker in thorough)"""
    prop = ctx.prop
    mods = prop_modules(prop)
    targets = [f"Magog.Props.{m}" for m in mods]
    target = " ".join(targets)
    names = []          # (module, theorem)
    for m in mods:
        path = os.path.join(LEAN, "Magog", "Props", f"{m}.lean")
        src = open(path).read() if os.path.exists(path) else ""
        for n in re.findall(r"^theorem\s+([A-Za-z0-9_.']+)", strip_comments(src), flags=re.M):
            if m == "Capstone" and not n.startswith(prop + "_"):
                continue
            names.append((m, n))
    ctx.obligations = len(names)
    ctx.theorems = [n if m == prop else f"{m}.{n}" for m, n in names]
    ctx.checker_cmd = f"cd /verif/lean && lake build {target} && lake env lean build/Audit_{prop}.lean  # #print axioms on every theorem"
    for t in targets:
        rc, out = ctx.prep["lean"].get(t, (1, "not built"))
        if rc != 0:
            ctx.discharged = 0
            errs = [l for l in out.split("\n") if "error" in l][:8]
            return {"ok": False, "why": "lake build failed", "detail": "\n".join(errs) or out[-1500:], "target": t}
    # forbidden tokens anywhere in the library (comments stripped)
    for p in lean_sources():
        s = strip_comments(open(p).read())
        m = FORBIDDEN.search(s)
        if m:
            ctx.discharged = 0
            return {"ok": False, "why": f"forbidden token {m.group(0)!r} in {os.path.relpath(p, LEAN)}", "detail": "", "target": target}
    audit = os.path.join(BUILD, f"Audit_{prop}.lean")
    with open(audit, "w") as f:
        for t in targets:
            f.write(f"import {t}\n")
        f.write("open Magog\n")
        for m, n in names:
            f.write(f"#print axioms Magog.Props.{m}.{n}\n")
    rc2, out2 = infra.sh(["lake", "env", "lean", audit], cwd=LEAN)
    bad = []
    okc = 0
    flat = out2.replace("\n", " ")
    for m, n in names:
        mm = re.search(r"'Magog\.Props\.%s\.%s' (does not depend on any axioms|depends on axioms: \[([^\]]*)\])" % (re.escape(m), re.escape(n)), flat)
        if not mm:
            bad.append(f"{m}.{n}: no axiom report")
            continue
        axs = set(a.strip() for a in (mm.group(2) or "").split(",") if a.strip())
        if axs - ALLOWED_AXIOMS:
            bad.append(f"{m}.{n}: axioms {sorted(axs - ALLOWED_AXIOMS)}")
        else:
            okc += 1
    ctx.discharged = okc
    if rc2 != 0 or bad:
        return {"ok": False, "why": "axiom audit failed", "detail": "; ".join(bad) or out2[-1500:], "target": target}
    if not ctx.quick:
        for t in targets:
            rc3, out3 = infra.sh(["lake", "env", "leanchecker", t], cwd=LEAN, timeout=3600)
            ctx.notes.append(f"leanchecker {t}: rc={rc3}")
            if rc3 != 0:
                return {"ok": False, "why": "leanchecker rejected the module", "detail": out3[-1500:], "target": t}
    return {"ok": True}


# --------------------------------------------------------------------------------------------------
# generic three-way comparison: Go vs model (correspondence), Go vs spec (property)

def oracle_retry(ctx, name, ops, res, timeout):
    """The Lean drivers (model, specification) do not depend on /repo: when one of their operations exceeds the
    time limit - run_batch has already repeated it alone with a long limit - that says nothing about the engine:
    there is no verdict for that input (counted in the evidence), never a violation."""
    unresolved = set(i for i, r in enumerate(res) if r == "crash hang")
    for _ in unresolved:
        ctx.bump("oracle_timeout:" + name)
    return unresolved


def three_way(ctx, name, ops_go, ops_model, ops_spec, project_go, project_spec, legal_mask=None, timeout=20.0):
    """Runs the three drivers. project_go(line) / project_spec(line) map a result line to the comparable
    abstraction. Returns (co_breaks, prop_breaks): lists of indices."""
    go = run_batch(HDRV, ops_go, timeout_per_op=timeout)
    model = run_batch(MDRV, ops_model, timeout_per_op=timeout) if ops_model else [None] * len(ops_go)
    spec = run_batch(MDRV, ops_spec, timeout_per_op=timeout) if ops_spec else [None] * len(ops_go)
    skip_m = oracle_retry(ctx, name, ops_model, model, timeout) if ops_model else set()
    skip_s = oracle_retry(ctx, name, ops_spec, spec, timeout) if ops_spec else set()
    co, pr = [], []
    for i in range(len(ops_go)):
        if ops_model and i not in skip_m and canon(go[i]) != canon(model[i]):
            co.append(i)
        if i in skip_s:
            continue
        if ops_spec and (legal_mask is None or legal_mask[i]):
            try:
                if project_go(go[i]) != project_spec(spec[i]):
                    pr.append(i)
            except Exception:
                pr.append(i)
    ctx.co[name] = ctx.co.get(name, 0) + len(ops_go)
    return go, model, spec, co, pr


def kv(line):
    """'ok a=1 b=2' -> dict"""
    d = {}
    if not line:
        return d
    for tok in line.split(" "):
        if "=" in tok:
            k, v = tok.split("=", 1)
            d[k] = v
    return d


def strip_ep(moves):
    return ",".join(sorted(m.split("@")[0] for m in moves.split(",") if m))


# --------------------------------------------------------------------------------------------------
# chess core: C01, C06, C09 share the position pool and the gen/sgen ops

def core_positions(ctx, nq, nt):
    n = ctx.size(nq, nt)
    pool, fam = gens.position_pool(ctx.rng, n, long_games=not ctx.quick)
    for k, v in fam.items():
        ctx.bump("family:" + k, v)
    return pool


def gen_projection(line):
    d = kv(line)
    return (strip_ep(d.get("moves", "")), d.get("cnt"), d.get("chk"))


def check_C01(ctx):
    pool = core_positions(ctx, 2500, 120000)
    ops = [f"gen\t{f}" for f in pool]
    sops = [f"sgen\t{f}" for f in pool]
    go, model, spec, co, pr = three_way(ctx, "co_gen", ops, ops, sops,
                                        lambda l: gen_projection(l) if l and l.startswith("ok") else ("panic",),
                                        lambda l: gen_projection(l))
    for i, f in enumerate(pool):
        d = kv(go[i])
        nm = len([m for m in d.get("moves", "").split(",") if m])
        ctx.case(f, nontrivial=nm > 0)
        ctx.bump("in_check" if d.get("chk") == "1" else "not_in_check")
        if "@" in d.get("moves", ""):
            ctx.bump("has_double_push")
        if i < 3:
            ctx.sample({"fen": f, "engine": (go[i] or "")[:160]})
    # duplicates in the engine's own list ("each legal move appears once")
    for i, f in enumerate(pool):
        d = kv(go[i])
        ms = [m for m in d.get("moves", "").split(",") if m]
        if len(ms) != len(set(ms)):
            ctx.violation("gen-dup:" + f, {"kind": "input", "fen": f, "what": "engine lists a move twice", "engine": go[i]})
    report_core(ctx, "co_gen", pool, ops, go, model, spec, co, pr, "legal move set / count / in-check")
    reached_positions_check(ctx, "C01")


def reached_positions_check(ctx, prop):
    """positions REACHED by engine-made moves (state carried by the engine, not re-loaded from a FEN): every 2-ply
    sequence from the targeted families (corner captures and promotions with castling rights, en passant, castling)
    and sampled longer playouts; the engine's move list / tactical list / counters at the end vs the rules"""
    rng = ctx.rng
    targeted = gens.legal_filter(list(dict.fromkeys(gens.TARGETED)))
    tsub = targeted if not ctx.quick else rng.sample(targeted, min(len(targeted), 30))
    seqs = gens.all_sequences(tsub, 2)
    cap = ctx.size(6000, 120000)
    if len(seqs) > cap:
        seqs = rng.sample(seqs, cap)
    pl = gens.playouts(rng, [START_FEN, KIWI_FEN] + targeted[:20], ctx.size(40, 1500), 60)
    for fen, steps in pl:
        mvs = [m for m, _ in steps]
        for k in range(4, len(mvs) + 1, 7):
            seqs.append((fen, mvs[:k]))
    ops = ["gamegen\t" + f + "\t" + "\t".join(m) for f, m in seqs]
    sops = ["sgamegen\t" + f + "\t" + "\t".join(m) for f, m in seqs]
    go = run_batch(HDRV, ops)
    spec = run_batch(MDRV, sops)
    ctx.co["co_gen_reached"] = len(seqs)
    for (f, m), g, sp in zip(seqs, go, spec):
        ctx.case("reached|" + f + "|" + " ".join(m))
        ctx.bump("reached_positions")
        if not sp or not sp.startswith("ok") or "nomove" in sp:
            continue
        dg, ds = kv(g), kv(sp)
        keys = ("moves", "cnt", "chk") if prop == "C01" else ("tact", "tcnt", "cnt")
        gm = (g or "").startswith("ok") and "nomove" not in (g or "")
        if not gm or any(strip_ep(dg.get(k, "")) != ds.get(k, "") for k in keys):
            ctx.violation(f"reached:{f}:{' '.join(m)}", {"kind": "history", "lines": [f"position {f} moves {' '.join(m)}", "perft 1"],
                          "what": "after playing these moves the engine's move list / counters differ from the rules of chess",
                          "engine": (g or "")[:400], "rules": sp[:400]})


def report_core(ctx, coname, pool, ops, go, model, spec, co, pr, what):
    for i in pr[:3]:
        ctx.violation(f"{coname}:{pool[i]}", {"kind": "input", "fen": pool[i], "op": ops[i], "what": f"engine disagrees with the rules-of-chess specification on {what}",
                                              "engine": go[i], "spec": spec[i], "model": model[i] if model else None})
    if co and not pr:
        i = co[0]
        ctx.violation(f"{coname}-model:{pool[i]}", {"kind": "unproved", "correspondence": coname, "fen": pool[i], "op": ops[i],
                                                    "what": "Go implementation and Lean model differ; the direct sweep against the specification found no failing input",
                                                    "engine": go[i], "model": model[i]}, found=False)


def check_C06(ctx):
    pool = core_positions(ctx, 2000, 100000)
    ops = [f"gen\t{f}" for f in pool]
    sops = [f"sgen\t{f}" for f in pool]

    def pg(l):
        if not l or not l.startswith("ok"):
            return ("panic",)
        d = kv(l)
        # the tactical flag the search reads must mark exactly the tactical list
        flagged = ",".join(sorted(x.split(":")[0] for x in d.get("flags", "").split(",") if x.endswith(":1")))
        return (strip_ep(d.get("tact", "")), d.get("tcnt"), d.get("cnt"), flagged)

    def ps(l):
        d = kv(l)
        return (strip_ep(d.get("tact", "")), d.get("tcnt"), d.get("cnt"), strip_ep(d.get("tact", "")))
    go, model, spec, co, pr = three_way(ctx, "co_count", ops, ops, sops, pg, ps)
    for i, f in enumerate(pool):
        d = kv(go[i])
        ctx.case(f, nontrivial=d.get("tcnt", "0") != "0")
        if d.get("tcnt", "0") != "0":
            ctx.bump("has_tactical")
        if i < 2:
            ctx.sample({"fen": f, "tact": d.get("tact"), "tcnt": d.get("tcnt")})
    report_core(ctx, "co_count", pool, ops, go, model, spec, co, pr, "tactical list / counters / tactical flag")
    # perft / tperft at small depths: Go Perft(n), PerftTactical(n) vs spec paths
    sub = ctx.rng.sample(pool, min(len(pool), ctx.size(120, 3000)))
    depths = [2, 3] if ctx.quick else [2, 3, 4]
    pops, meta = [], []
    for f in sub:
        d = ctx.rng.choice(depths)
        nmen = sum(1 for c in f.split()[0] if c.isalpha())
        if nmen > 12 and d > 2:
            d = 2
        if nmen > 20 and not ctx.quick:
            d = 2
        pops.append(f"perft\t{f}\t{d}")
        meta.append((f, d))
    spops = [o.replace("perft\t", "sperft\t", 1) for o in pops]
    go2, model2, spec2, co2, pr2 = three_way(ctx, "co_perft", pops, pops, spops, lambda l: l, lambda l: l, timeout=120.0)
    for (f, d) in meta:
        ctx.case(f"perft{d}:{f}")
        ctx.bump(f"perft_depth_{d}")
    report_core(ctx, "co_perft", [f"{f} depth {d}" for f, d in meta], pops, go2, model2, spec2, co2, pr2, "perft / tperft counts")
    # the UCI text path: `perft n` / `tperft n` divide output vs the specification
    uci_perft_check(ctx, ctx.rng.sample(pool, min(len(pool), ctx.size(25, 300))))


def uci_perft_check(ctx, fens):
    """position <fen>; perft n; tperft n through ParseInputLine: per-root-move lines and totals"""
    ops, meta = [], []
    for f in fens:
        for n in (1, 2):
            ops.append(f"uci\tposition {f}")
            ops.append(f"uci\tperft {n}")
            ops.append(f"uci\ttperft {n}")
            meta.append((f, n))
    res = run_batch(HDRV, ops, shards=1)
    sops = []
    for f, n in meta:
        sops.append(f"sdivide\t{f}\t{n}")
    sres = run_batch(MDRV, sops)
    for k, (f, n) in enumerate(meta):
        rp, rt = res[3 * k + 1], res[3 * k + 2]
        exp = sres[k]
        ctx.case(f"uciperft{n}:{f}")
        got_p = parse_divide(rp, "total:")
        got_t = drop_zero(parse_divide(rt, "total material-changing moves:"))
        d = kv(exp)
        exp_p = d.get("perft", "")
        exp_t = d.get("tperft", "")
        if got_p != exp_p:
            ctx.violation(f"perft{n}:{f}", {"kind": "input", "lines": [f"position {f}", f"perft {n}"], "what": "perft divide output differs from the specification's path counts",
                                            "engine": got_p, "spec": exp_p})
        if got_t != exp_t:
            ctx.violation(f"tperft{n}:{f}", {"kind": "input", "lines": [f"position {f}", f"tperft {n}"], "what": "tperft divide output differs from the specification's tactical path counts",
                                             "engine": got_t, "spec": exp_t})
    ctx.co["co_perft_uci"] = len(meta)


def parse_divide(line, total_prefix):
    """canonical 'move:count,...|total' from the captured stdout of perft/tperft"""
    if not line or not line.startswith("ok"):
        return "panic"
    d = kv(line)
    try:
        text = bytes.fromhex(d.get("out", "")).decode("utf-8", "replace")
    except ValueError:
        return "badhex"
    items, total = [], None
    for l in text.split("\n"):
        l = l.strip()
        if not l:
            continue
        if l.startswith(total_prefix):
            total = l[len(total_prefix):].strip()
        else:
            m = re.match(r"^([a-h][1-8][a-h][1-8][qrbn]?): (\d+)$", l)
            if m:
                items.append(f"{m.group(1)}:{m.group(2)}")
            else:
                items.append("?" + l)
    return ",".join(sorted(items)) + "|" + str(total)


def check_C09(ctx):
    # (a) the property's own finite space: attacker kind x from x (no blocker | one blocker), all 64 targets per row
    kinds = "PNBRQKpnbrqk"
    rows = []
    rng = ctx.rng
    n_rows = ctx.size(6000, 0)
    sq = list(range(64))

    def placement(items):
        b = ["."] * 64
        for s, c in items:
            b[s] = c
        return "".join(b)
    if ctx.quick and not ctx.escalated:
        for _ in range(n_rows):
            k = rng.choice(kinds)
            a = rng.choice(sq)
            if k in "Pp" and a // 8 in (0, 7):
                continue
            items = [(a, k)]
            if rng.random() < 0.8:
                b = rng.choice([s for s in sq if s != a])
                items.append((b, rng.choice("PNBRQpnbrq") if b // 8 not in (0, 7) else rng.choice("NBRQnbrq")))
            rows.append((placement_with_king(items, k.isupper(), rng), k.isupper()))
    else:
        for k in kinds:
            for a in sq:
                if k in "Pp" and a // 8 in (0, 7):
                    continue
                rows.append((placement_with_king([(a, k)], k.isupper(), None), k.isupper()))
                for b in sq:
                    if b == a:
                        continue
                    blk = "n" if k.isupper() else "N"
                    rows.append((placement_with_king([(a, k), (b, blk)], k.isupper(), None), k.isupper()))
                    if (a + b) % 7 == 0:
                        blk2 = "R" if k.isupper() else "r"
                        rows.append((placement_with_king([(a, k), (b, blk2)], k.isupper(), None), k.isupper()))
    rows = [r for r in rows if r[0]]
    ops = [f"attrow\t{pl}\t{1 if w else 0}" for pl, w in rows]
    sops = [f"sattrow\t{pl}\t{1 if w else 0}" for pl, w in rows]
    go, model, spec, co, pr = three_way(ctx, "co_attack", ops, ops, sops, lambda l: l, lambda l: l)
    for i, (pl, w) in enumerate(rows):
        ctx.case(ops[i])
        ctx.evaluations += 63   # each row decides 64 target squares
    ctx.bump("attack_rows", len(rows))
    ctx.sample({"placement": rows[0][0], "by_white": rows[0][1], "engine": go[0]})
    report_core(ctx, "co_attack", [r[0] for r in rows], ops, go, model, spec, co, pr, "attacked squares")
    # (b) full positions: attacked maps by both colours and in-check
    pool = core_positions(ctx, 1200, 60000)
    ops = [f"attfen\t{f}" for f in pool]
    sops = [f"sattfen\t{f}" for f in pool]
    go, model, spec, co, pr = three_way(ctx, "co_attack_fen", ops, ops, sops, lambda l: l, lambda l: l)
    for f in pool:
        ctx.case("attfen:" + f)
    report_core(ctx, "co_attack_fen", pool, ops, go, model, spec, co, pr, "attacked squares on a full position")
    gops = [f"gen\t{f}" for f in pool]
    sg = [f"sgen\t{f}" for f in pool]
    go, model, spec, co, pr = three_way(ctx, "co_incheck", gops, None, sg, lambda l: kv(l).get("chk"), lambda l: kv(l).get("chk"))
    report_core(ctx, "co_incheck", pool, gops, go, None, spec, co, pr, "side to move in check")
    if ctx.quick and not ctx.escalated:
        ctx.notes.append("one-blocker space sampled in quick tier; exhaustive in thorough tier")
    else:
        ctx.notes.append("one-blocker space enumerated exhaustively")


def placement_with_king(items, attacker_white, rng):
    """the attacking side needs its king on the board (the engine reads the pawn-attack colour from it);
    it is placed on the first free square; the specification sees the same board, king included"""
    b = ["."] * 64
    for s, c in items:
        b[s] = c
    kc = "K" if attacker_white else "k"
    if kc in b:
        return "".join(b)
    free = [s for s in range(64) if b[s] == "."]
    if not free:
        return None
    s = rng.choice(free) if rng else free[(len(items) * 17 + items[0][0] * 5) % len(free)]
    b[s] = kc
    return "".join(b)


# --------------------------------------------------------------------------------------------------
# C02: playing moves

def check_C02(ctx):
    rng = ctx.rng
    suite = gens.suite_fens()
    targeted = gens.legal_filter(list(dict.fromkeys(gens.TARGETED)))
    con = gens.legal_filter(gens.constructive(rng, 60))
    starts = [START_FEN] * 4 + [KIWI_FEN] * 2 + targeted + suite[:30] + con
    games = ctx.size(120, 4000)
    plies = 150 if ctx.quick else 400
    pl = gens.playouts(rng, starts, games, plies)
    ops, sops, meta = [], [], []
    for fen, steps in pl:
        if not steps:
            continue
        mvs = [m for m, _ in steps]
        ops.append("game\t" + fen + "\t" + "\t".join(mvs))
        sops.append("sgame\t" + fen + "\t" + "\t".join(mvs))
        meta.append((fen, mvs, steps))
    # exhaustive short game trees from the targeted families (every 2-ply / 3-ply sequence)
    tsub = targeted if not ctx.quick else rng.sample(targeted, min(len(targeted), 26))
    seqs = gens.all_sequences(tsub, 2)
    sparse = [f for f in targeted if sum(1 for c in f.split()[0] if c.isalpha()) <= 8]
    seqs += gens.all_sequences(sparse if not ctx.quick else rng.sample(sparse, min(len(sparse), 6)), 3)
    if ctx.quick and len(seqs) > 25000:
        seqs = rng.sample(seqs, 25000)
    ctx.bump("exhaustive_short_sequences", len(seqs))
    for fen, mvs in seqs:
        ops.append("game\t" + fen + "\t" + "\t".join(mvs))
        sops.append("sgame\t" + fen + "\t" + "\t".join(mvs))
        meta.append((fen, mvs, [(m, None) for m in mvs]))

    def proj_go(l):
        if not l or not l.startswith("ok"):
            return ("panic", l)
        out = []
        for part in l.split(" | ")[1:]:
            d = kv(part)
            out.append((d.get("B"), d.get("f"), d.get("ep")))
        return tuple(out) + (("POPDIFF",) if "POPDIFF" in l else ()) + (("nomove",) if "nomove" in l else ())

    def proj_spec(l):
        out = []
        for part in (l or "").split(" | ")[1:]:
            d = kv(part)
            out.append((d.get("B"), d.get("f"), d.get("ep")))
        return tuple(out)
    go, model, spec, co, pr = three_way(ctx, "co_make", ops, ops, sops, proj_go, proj_spec)
    kinds = {"castle": 0, "ep": 0, "promo": 0, "capture": 0, "double": 0}
    total_plies = 0
    for (fen, mvs, steps), g in zip(meta, go):
        total_plies += len(mvs)
        ctx.case(fen + " " + " ".join(mvs[:40]))
        ctx.evaluations += len(mvs) - 1
        for m in mvs:
            if len(m) == 5:
                kinds["promo"] += 1
            if m in ("e1g1", "e1c1", "e8g8", "e8c8"):
                kinds["castle"] += 1
    for k, v in kinds.items():
        ctx.bump("moves_" + k, v)
    ctx.bump("plies", total_plies)
    if meta:
        ctx.sample({"start": meta[0][0], "moves": meta[0][1][:12], "plies": len(meta[0][1])})
    # ply counter and list/board consistency on the engine's own snapshots
    for (fen, mvs, steps), g in zip(meta, go):
        if not g or not g.startswith("ok"):
            continue
        parts = g.split(" | ")[1:]
        ply0 = (int(fen.split()[5]) - 1) * 2 + (1 if fen.split()[1] == "b" else 0)
        for j, part in enumerate(parts):
            d = kv(part)
            if d.get("ply") != str(ply0 + j + 1):
                ctx.violation(f"ply:{fen}:{' '.join(mvs[:j+1])}", {"kind": "history", "start": fen, "moves": mvs[:j + 1], "what": "ply counter wrong after the sequence",
                                                                  "engine_ply": d.get("ply"), "expected": ply0 + j + 1})
                break
            bad = snapshot_inconsistent(d)
            if bad:
                ctx.violation(f"lists:{fen}:{' '.join(mvs[:j+1])}", {"kind": "history", "start": fen, "moves": mvs[:j + 1], "what": "piece lists / king squares disagree with the board: " + bad,
                                                                    "engine": part})
                break
    names = [f"{fen} moves {' '.join(mvs)}" for fen, mvs, _ in meta]
    for i in pr[:3]:
        fen, mvs, steps = meta[i]
        # shrink to the first differing ply
        a, b = proj_go(go[i]), proj_spec(spec[i])
        j = next((k for k in range(min(len(a), len(b))) if a[k] != b[k]), min(len(a), len(b)))
        ctx.violation(f"make:{fen}:{' '.join(mvs[:j+1])}", {"kind": "history", "start": fen, "moves": mvs[:j + 1], "what": "position after the move sequence differs from the rules of chess (or push/pop did not restore the position)",
                                                            "engine": a[j] if j < len(a) else a[-1:], "spec": b[j] if j < len(b) else None})
    if co and not pr:
        i = co[0]
        ctx.violation(f"make-model:{names[i][:200]}", {"kind": "unproved", "correspondence": "co_make", "input": names[i], "what": "Go implementation and Lean model differ on MakeMove snapshots; no failing input against the specification found",
                                                       "engine": (go[i] or "")[:600], "model": (model[i] or "")[:600]}, found=False)
    # every reached position also goes through move generation (legal generation stays exact at every later step)
    fens = [f for _, _, steps in meta for _, f in steps if f]
    sub = rng.sample(fens, min(len(fens), ctx.size(1500, 60000)))
    gops = [f"gen\t{f}" for f in sub]
    sg = [f"sgen\t{f}" for f in sub]
    go2, _, spec2, _, pr2 = three_way(ctx, "co_gen_after", gops, None, sg,
                                      lambda l: gen_projection(l) if l and l.startswith("ok") else ("panic",), gen_projection)
    for f in sub:
        ctx.case("after:" + f)
    for i in pr2[:2]:
        ctx.violation(f"gen-after:{sub[i]}", {"kind": "input", "fen": sub[i], "what": "legal move set wrong on a position reached by play", "engine": go2[i], "spec": spec2[i]})
    # push/pop nestings the search performs: in-process search must leave position and stack index unchanged
    sub2 = rng.sample(fens, min(len(fens), ctx.size(40, 800)))
    sres = run_batch(HDRV, [f"search\t{f}\t2" for f in sub2])
    for f, r in zip(sub2, sres):
        ctx.case("searchpop:" + f)
        if r and r.startswith("ok") and ("same=1 idx=0" not in r):
            ctx.violation(f"search-unmake:{f}", {"kind": "input", "fen": f, "what": "a depth-2 search did not restore the position / stack index", "engine": r[:200]})
    ctx.co["co_search_unmake"] = len(sub2)


def snapshot_inconsistent(d):
    """strict list <-> board bijection on a snapshot dict"""
    B = d.get("B", "")
    if len(B) != 64:
        return "bad board"
    if d.get("off") not in (None, "0"):
        return "off-board slot not empty"

    def sqs(s):
        return [int(x) for x in s.split(",") if x] if s is not None else []
    lists = {"wN": sqs(d.get("wN")), "wP": sqs(d.get("wP")), "bN": sqs(d.get("bN")), "bP": sqs(d.get("bP"))}
    expect = {"wN": [], "wP": [], "bN": [], "bP": []}
    wk = bk = None
    for i, c in enumerate(B):
        s = (i // 8) * 16 + i % 8
        if c == ".":
            continue
        if c == "K":
            if wk is not None:
                return "two white kings"
            wk = s
        elif c == "k":
            if bk is not None:
                return "two black kings"
            bk = s
        elif c == "P":
            expect["wP"].append(s)
        elif c == "p":
            expect["bP"].append(s)
        elif c.isupper():
            expect["wN"].append(s)
        else:
            expect["bN"].append(s)
    for k in lists:
        if sorted(lists[k]) != sorted(expect[k]):
            return f"{k} list {sorted(lists[k])} vs board {sorted(expect[k])}"
    if str(wk) != d.get("wk") or str(bk) != d.get("bk"):
        return f"king squares {d.get('wk')},{d.get('bk')} vs board {wk},{bk}"
    return ""


# --------------------------------------------------------------------------------------------------
# C15 evaluation symmetry (and co_eval used by C04)

def blend_hypothesis_check(ctx):
    """The evaluation bound (C05 `eval_bound`, the capstone) is proved for a blend function that satisfies
    `BlendBounded blend pstMaxAbs`: |blend msum mid end| <= blendK * pstMaxAbs for msum <= maxMaterialSum and
    |mid|, |end| <= pstMaxAbs. The engine's blend is float64 arithmetic, outside the model: here the hypothesis is
    checked on the engine's own function EXHAUSTIVELY over that finite domain (constants read from the Lean
    definitions, not copied)."""
    src = os.path.join(BUILD, "BlendConsts.lean")
    with open(src, "w") as f:
        f.write("import Magog.Lemmas.EvalBound\n#eval (Magog.Lemmas.EvalBound.maxMaterialSum, Magog.Lemmas.EvalBound.blendK, Magog.Lemmas.EvalBound.pstMaxAbs)\n")
    rc, out = infra.sh(["lake", "env", "lean", src], cwd=LEAN)
    m = re.search(r"\((\d+),\s*(\d+),\s*(\d+)\)", out)
    if rc != 0 or not m:
        ctx.violation("blend-hypothesis:consts", {"kind": "unproved", "theorem": "Magog.Props.C05.eval_bound", "what": "could not read maxMaterialSum / blendK / pstMaxAbs from the Lean library", "detail": out[-600:]}, found=False)
        return
    max_sum, k, b = int(m.group(1)), int(m.group(2)), int(m.group(3))
    r = run_batch(HDRV, [f"blendbound\t{max_sum}\t{b}"], timeout_per_op=300.0)[0]
    mm = re.match(r"ok (\d+) at (-?\d+) (-?\d+) (-?\d+)", r or "")
    n = (max_sum + 1) * (2 * b + 1) ** 2
    ctx.co["co_blend_hypothesis"] = n
    ctx.evaluations += n
    if not mm:
        ctx.violation("blend-hypothesis:run", {"kind": "unproved", "theorem": "Magog.Props.C05.eval_bound", "op": f"blendbound {max_sum} {b}", "engine": r, "what": "exhaustive check of the BlendBounded hypothesis on the engine's blend did not run"}, found=False)
        return
    worst = int(mm.group(1))
    ctx.notes.append(f"BlendBounded instance on the engine's float64 blend: max |blend| = {worst} at (msum, mid, end) = ({mm.group(2)}, {mm.group(3)}, {mm.group(4)}) over {n} points; bound blendK*pstMaxAbs = {k}*{b} = {k * b}")
    if worst > k * b:
        ctx.violation("blend-hypothesis", {"kind": "unproved", "theorem": "Magog.Props.C05.eval_bound", "hypothesis": "BlendBounded blend pstMaxAbs",
                                           "op": f"blend {mm.group(2)} {mm.group(3)} {mm.group(4)}", "engine": worst, "bound": k * b,
                                           "what": "the engine's king-table blend exceeds the bound under which the evaluation range theorem is proved; the cp range of non-mate evaluations is no longer shown"}, found=False)


def blend_domain_check(ctx):
    """Go float64 blend vs Lean Float on the complete domain: material sum 0..(2*15 queens) step 10 x the
    distinct (mid,end) pairs of the king tables"""
    dump = json.load(open(os.path.join(BUILD, "dump.json")))
    pst = dump["pst"]
    pairs = set()
    for col in ("White", "Black"):
        mid, end = pst["KingMidgame" + col], pst["KingEndgame" + col]
        for i in range(128):
            if i & 0x88 == 0:
                pairs.add((mid[i], end[i]))
    step = 10
    top = 2 * 15 * 900
    sums = range(0, top + 1, step) if not ctx.quick else list(range(0, top + 1, 50))
    ops = [f"blend\t{m}\t{a}\t{b}" for m in sums for (a, b) in sorted(pairs)]
    go = run_batch(HDRV, ops)
    le = run_batch(MDRV, ops)
    bad = [i for i in range(len(ops)) if go[i] != le[i]]
    ctx.co["co_blend"] = len(ops)
    ctx.evaluations += len(ops)
    if bad:
        ctx.violation("blend:" + ops[bad[0]], {"kind": "unproved", "correspondence": "co_blend", "op": ops[bad[0]], "engine": go[bad[0]], "model": le[bad[0]],
                                              "what": "Go float64 king-table blend and the model's Float blend differ"}, found=False)
    return len(ops)


def check_C15(ctx):
    pool = core_positions(ctx, 2500, 120000)
    blend_domain_check(ctx)
    ops = [f"eval\t{f}" for f in pool]
    mops = [f"eval\t{gens.mirror_fen(f)}" for f in pool]
    go = run_batch(HDRV, ops)
    gom = run_batch(HDRV, mops)
    model = run_batch(MDRV, ops)
    ctx.co["co_eval"] = len(ops)
    # the Lean `mirror` (subject of the C15 theorems) against the orchestrator's independent FEN mirror
    mm = run_batch(MDRV, [f"mirror\t{f}" for f in pool])
    ms = run_batch(MDRV, [f"snap\t{gens.mirror_fen(f)}" for f in pool])
    ctx.co["co_mirror_def"] = len(pool)
    for f, a, b in zip(pool, mm, ms):
        ka, kb = kv(a), kv(b)
        # the ply counter is not mirrored (the FEN mirror keeps the move number, the turn changes): compare the rest
        if not a or not b or {k: v for k, v in ka.items() if k != "ply"} != {k: v for k, v in kb.items() if k != "ply"}:
            ctx.violation("mirror-def:" + f, {"kind": "input", "fen": f, "what": "Lean `Model.mirror` differs from the independent colour-flip of the FEN", "model_mirror": (a or "")[:300], "fen_mirror": (b or "")[:300]}, found=False)
            break
    ctx.co["co_eval_mirror"] = len(ops)
    co = []
    for i, f in enumerate(pool):
        d = kv(go[i])
        ctx.case(f, nontrivial=True)
        if d.get("full") != d.get("cheap"):
            ctx.bump("mobility_matters")
        if f.split()[3] != "-":
            ctx.bump("has_ep")
        if f.split()[2] != "-":
            ctx.bump("has_castling")
        if canon(go[i]) != canon(model[i]):
            co.append(i)
        a, b = kv(go[i]), kv(gom[i])
        if (a.get("full"), a.get("cheap")) != (b.get("full"), b.get("cheap")) or canon(go[i]) == "panic":
            ctx.violation("evalsym:" + f, {"kind": "input", "fen": f, "mirror": gens.mirror_fen(f), "what": "evaluation differs between a position and its colour-flipped mirror",
                                           "engine": go[i], "engine_mirror": gom[i]})
        if i < 3:
            ctx.sample({"fen": f, "eval": go[i], "mirror_eval": gom[i]})
    if co and not ctx.violations:
        i = co[0]
        ctx.violation("eval-model:" + pool[i], {"kind": "unproved", "correspondence": "co_eval", "fen": pool[i], "engine": go[i], "model": model[i],
                                               "what": "Go evaluation and Lean model evaluation differ; no asymmetric position found"}, found=False)



# --------------------------------------------------------------------------------------------------
# session helpers for the search properties

def wait_bestmove(s, timeout):
    got, st = s.read_until(lambda l: l.startswith("bestmove"), timeout)
    return got, st


def small_pool(ctx, n, max_men=32, nonterminal=True, max_officers=14):
    """legal positions with at least one (two if asked) legal moves, for SEARCHING: constructive positions crowded
    with promoted heavy pieces are left to the move-generation checks - their quiescence trees run to tens of
    millions of nodes at depth 1 (minutes), which would only show up here as time-outs of the check itself"""
    pool, fam = gens.position_pool(ctx.rng, max(200, n * 4))
    pool = [f for f in pool if sum(1 for c in f.split()[0] if c in "nbrqNBRQ") <= max_officers]
    res = run_batch(MDRV, [f"sgen\t{f}" for f in pool])
    out = []
    for f, r in zip(pool, res):
        d = kv(r)
        nmen = sum(1 for c in f.split()[0] if c.isalpha())
        if nmen > max_men:
            continue
        if nonterminal and int(d.get("cnt", "0")) < 1:
            continue
        out.append((f, int(d.get("cnt", "0"))))
    ctx.rng.shuffle(out)
    return out[:n]


TRACE_TERMINAL_FENS = ["7k/5Q2/6K1/8/8/8/8/8 b - - 0 1", "7k/6Q1/6K1/8/8/8/8/8 b - - 0 1", "k7/8/1K6/8/8/8/8/R7 b - - 0 1",
                 "rnb1kbnr/pppp1ppp/8/4p3/6Pq/5P2/PPPPP2P/RNBQKBNR w KQkq - 1 3", "8/8/8/8/8/5k2/5p2/5K2 w - - 0 1"]


def run_trace(item):
    """`setoption; position; go depth d` on the real binary with the stable-sort hook; canonical event list"""
    fen, d, iv = item
    s = Session(env={"VERIF_STABLE_SORT": "1"})
    try:
        s.send(f"setoption name currmoveLogInterval value {iv}")
        s.send(f"position {fen}")
        s.send(f"go depth {d}")
        got, st = wait_bestmove(s, 90.0)
        if st != "match":
            time.sleep(0.1)
            return ("fail", crash_line(s) or st, got[-3:])
        ev = []
        for l in got:
            pi = parse_info(l)
            if pi is None:
                m = re.match(r"^info depth 0 score (cp -?\d+|mate -?\d+)$", l)
                if m:
                    ev.append(f"info depth 0 score {m.group(1)}")
                elif l.startswith("bestmove"):
                    ev.append(l.strip())
                elif l.startswith("info") and not l.startswith("info string"):
                    ev.append("unparsed " + l)
                continue
            if pi["kind"] == "depth":
                ev.append(f"info depth {pi['depth']} score {pi['score']} nodes {pi['nodes']} pv {','.join(pi['pv'])}")
            elif pi["kind"] == "score":
                ev.append(f"info score {pi['score']} depth {pi['depth']} nodes {pi['nodes']} pv {','.join(pi['pv'])}")
            else:
                ev.append(f"info currmove {pi['move']} currmovenumber {pi['number']} nodes {pi['nodes']}")
        # mid-iteration pv lines appear only when the search runs longer than 200 ms of wall-clock time: keep the final one
        last_score = max((i for i, e in enumerate(ev) if e.startswith("info score")), default=-1)
        ev = [e for i, e in enumerate(ev) if not e.startswith("info score") or i == last_score]
        return ("ok", ev)
    finally:
        s.kill()


def trace_correspondence(ctx, nq, nt):
    """co_trace: the complete output of `go depth d` (every completed depth's score, node count and line, the
    currmove lines with their node counts, the final line and the bestmove) of the real engine - run with the
    verif hook that makes move ordering a *stable* sort - against the Lean model's `iterDeep` under a silent oracle
    and a stable sort. This ties the search model the theorems of C03/C04/C10/C11/C14 are about to the Go search
    node for node: any difference in pruning, ordering, PV bookkeeping, node accounting or iteration control shows."""
    n = ctx.size(nq, nt)
    pool = small_pool(ctx, n, max_men=32)
    items = []
    for f, cnt in pool:
        nmen = sum(1 for c in f.split()[0] if c.isalpha())
        d = 4 if nmen <= 6 else (3 if nmen <= 14 else 2)
        if not ctx.quick and nmen <= 10 and ctx.rng.random() < 0.3:
            d += 1
        items.append((f, d, ctx.rng.choice([37, 500, 1000000])))
    for f in TRACE_TERMINAL_FENS:
        items.append((f, 2, 1000))
    res = parallel_map(run_trace, items, workers=min(12, infra.NCPU))
    # engine (stable sort) and model visit the same nodes: the engine's node count tells what the model run costs
    # (the compiled model does a few ten thousand nodes per second); expensive traces are skipped, not timed out
    node_cap = 60000 if ctx.quick else 600000
    keep = []
    for it, g in zip(items, res):
        nodes = 0
        if g is not None and g[0] == "ok":
            for e in g[1]:
                m = re.search(r" nodes (\d+)", e)
                if m:
                    nodes = max(nodes, int(m.group(1)))
        if nodes > node_cap:
            ctx.bump("trace_skipped_too_expensive")
        else:
            keep.append((it, g))
    items = [it for it, _ in keep]
    res = [g for _, g in keep]
    ref = run_batch(MDRV, [f"mtrace\t{f}\t{d}\t{iv}" for f, d, iv in items], shards=infra.NCPU, timeout_per_op=120.0)
    ctx.co["co_trace"] = len(items)
    for (f, d, iv), g, r in zip(items, res, ref):
        ctx.case(f"trace|{f}|{d}|{iv}")
        ctx.bump(f"trace_depth_{d}")
        lines = [f"setoption name currmoveLogInterval value {iv}", f"position {f}", f"go depth {d}"]
        if g is None or g[0] != "ok":
            ctx.violation(f"trace-fail:{f}:{d}", {"kind": "input", "lines": lines, "what": f"search did not finish: {g}"})
            continue
        if r and r.startswith("crash hang"):
            ctx.bump("trace_model_timeout_skipped")      # the model run did not finish in its time slot: no verdict
            continue
        if not r or not r.startswith("ok"):
            ctx.violation(f"trace-model:{f}:{d}", {"kind": "input", "lines": lines, "what": "the Lean search model panicked or failed on an input the engine handled", "model": (r or "")[:300], "engine": g[1][-3:]}, found=False)
            continue
        me = [x.strip() for x in r[3:].split(" ; ") if x.strip()]
        ge = g[1]
        ctx.bump("trace_events", len(ge))
        ctx.bump("trace_currmove_lines", sum(1 for e in ge if e.startswith("info currmove")))
        if me != ge:
            k = next((i for i, (a, b) in enumerate(zip(ge, me)) if a != b), min(len(ge), len(me)))
            ctx.violation(f"trace:{f}:{d}:{iv}", {"kind": "input", "lines": lines, "env": "VERIF_STABLE_SORT=1",
                          "what": "output of `go depth d` (engine with stable move ordering) differs from the Lean search model's event sequence",
                          "first_difference_index": k, "engine": ge[max(0, k - 1):k + 2], "model": me[max(0, k - 1):k + 2]}, found=False)
        elif len(ctx.samples) < 4:
            ctx.sample({"trace": lines, "events": len(ge), "last": ge[-2:]})


def legal_set(fens):
    res = run_batch(MDRV, [f"sgen\t{f}" for f in fens])
    return [set(m for m in kv(r).get("moves", "").split(",") if m) for r in res]


GO_FORMS = [
    ("depth1", "go depth 1", None), ("depth3", "go depth 3", None), ("movetime1", "go movetime 1", None),
    ("movetime60", "go movetime 60", None), ("clock1ms", "go wtime 1 btime 1", None),
    ("clock_inc", "go wtime 300 btime 300 winc 10 binc 10", None), ("mtg1", "go wtime 400 btime 400 movestogo 1", None),
    ("mtg40", "go wtime 2000 btime 2000 winc 0 binc 0 movestogo 40", None),
    ("infinite_stop", "go infinite", 0.06), ("bare_stop", "go", 0.04), ("infinite_stop_now", "go infinite", 0.0),
    ("depth_then_time", "go depth 2 movetime 5000", None), ("negclock", "go wtime -5 btime -5", None),
]


def run_go_forms(item):
    """one process per position: every go form in turn; returns list of (form, n_bestmove, move, status, crash)"""
    fen, forms, via_moves = item[:3]
    hist = item[3] if len(item) > 3 else None
    out = []
    s = Session()
    try:
        if hist:
            # an earlier part of the session: other searches, ended in every possible way (terminal roots included)
            for l in EXIT_STATES[hist]:
                if l == "<bestmove>":
                    wait_bestmove(s, 20.0)
                elif l.startswith("<sleep "):
                    time.sleep(float(l[7:-1]))
                else:
                    s.send(l)
            s.send("isready")
            s.read_until(lambda l: l == "readyok", 10.0)
            s.drain(0.02)
        for name, cmd, stop_after in forms:
            if not s.alive():
                s.kill()
                s = Session()
            s.send(via_moves if via_moves else f"position {fen}")
            s.send(cmd)
            if stop_after is not None:
                time.sleep(stop_after)
                s.send("stop")
            got, st = wait_bestmove(s, 12.0)
            if st == "timeout":
                # still searching: end it before the next form (a second `go` on top of a running search is outside
                # the UCI precondition and would be the check's own fault); a form with a bounded budget that needs
                # this is reported below as missing its bestmove, the process is replaced either way
                s.send("stop")
                g2, st2 = wait_bestmove(s, 10.0)
                s.kill()
                s = Session()
                if st2 == "match" and name.startswith("depth"):
                    # an unbudgeted fixed-depth search that is merely slow on this position and ends as soon as it
                    # is stopped: no verdict on "exactly one bestmove" beyond that it did answer the stop
                    b2 = [l for l in g2 if l.startswith("bestmove")]
                    out.append((name, len(b2), b2[0].split()[1] if b2 and len(b2[0].split()) > 1 else None, "slow", ""))
                    continue
            extra = s.drain(0.03) if st != "timeout" else []
            bms = [l for l in got + extra if l.startswith("bestmove")]
            mv = bms[0].split()[1] if bms and len(bms[0].split()) > 1 else None
            crash = ""
            if st != "match":
                time.sleep(0.1)
                crash = crash_line(s) or ("no bestmove: " + st)
            out.append((name, len(bms), mv, st, crash))
        return out
    finally:
        s.kill()


PROMOTED_BY_MOVE_LIST = [
    ("8/4P2k/8/8/8/8/8/K7 w - - 0 1", "e7e8q", "4Q3/7k/8/8/8/8/8/K7 b - - 0 1"),
    ("1k6/6P1/8/8/8/8/8/K7 w - - 0 1", "g7g8r", "1k4R1/8/8/8/8/8/8/K7 b - - 0 1"),
    ("8/4P2k/8/8/8/8/8/K7 w - - 0 1", "e7e8n", "4N3/7k/8/8/8/8/8/K7 b - - 0 1"),
    ("8/4P2k/8/8/8/8/8/K7 w - - 0 1", "e7e8B", "4B3/7k/8/8/8/8/8/K7 b - - 0 1"),
    ("k7/8/8/8/8/8/4p2K/8 b - - 0 1", "e2e1q", "k7/8/8/8/8/8/7K/4q3 w - - 0 2"),
    ("k7/8/8/8/8/8/4p2K/8 b - - 0 1", "e2e1R", "k7/8/8/8/8/8/7K/4r3 w - - 0 2"),
    ("k7/8/8/8/8/8/4p2K/8 b - - 0 1", "e2e1b", "k7/8/8/8/8/8/7K/4b3 w - - 0 2"),
    ("k7/8/8/8/8/8/4p2K/8 b - - 0 1", "e2e1n", "k7/8/8/8/8/8/7K/4n3 w - - 0 2"),
]


def check_C03(ctx):
    n = ctx.size(28, 500)
    pool = small_pool(ctx, n)
    # some positions set by move list
    games = gens.playouts(ctx.rng, [START_FEN], max(3, n // 8), 30)
    items = []
    hists = [h for h in EXIT_STATES if not h.startswith("mid-")]
    for j, (f, cnt) in enumerate(pool):
        forms = GO_FORMS if not ctx.quick else ctx.rng.sample(GO_FORMS, 7)
        # every second position is searched after an earlier part of the session (cycling through all histories)
        items.append((f, forms, None, hists[(j // 2) % len(hists)] if j % 2 else None))
    for start, steps in games:
        if len(steps) < 5:
            continue
        k = ctx.rng.randint(3, len(steps))
        mvs = [m for m, _ in steps[:k]]
        items.append((steps[k - 1][1], ctx.rng.sample(GO_FORMS, 5), "position startpos moves " + " ".join(mvs), None))
    # positions set by a move list that contains a promotion, the promoted piece still on the board
    for start, mv, after in PROMOTED_BY_MOVE_LIST:
        items.append((after, ctx.rng.sample(GO_FORMS, 4), f"position fen {start} moves {mv}", None))
    results = parallel_map(run_go_forms, items, workers=min(8, infra.NCPU))
    fens = [it[0] for it in items]
    legal = legal_set(fens)
    ctx.co["co_go"] = sum(len(r) for r in results if isinstance(r, list))
    for (fen, forms, via, hist), res, ls in zip(items, results, legal):
        if not isinstance(res, list):
            raise RuntimeError(f"session error {res}")
        if not ls:
            continue
        if hist:
            ctx.bump("after_history")
        for name, nb, mv, st, crash in res:
            cmd = next(c for n_, c, _ in forms if n_ == name)
            ctx.case(f"{fen}|{name}")
            ctx.bump("form:" + name)
            lines = (EXIT_STATES[hist] if hist else []) + [via or f"position {fen}", cmd] + (["stop"] if "stop" in name else [])
            if st == "slow":
                ctx.bump("slow_depth_search_stopped")
                if nb != 1 or mv not in ls:
                    ctx.violation(f"go-slow:{name}:{fen}", {"kind": "history", "lines": lines + ["<12 s later> stop"], "what": f"after stopping a long fixed-depth search: {nb} bestmove lines, move {mv}", "fen": fen})
                continue
            if nb != 1:
                ctx.violation(f"go:{name}:{fen}", {"kind": "history", "lines": lines, "what": f"{nb} bestmove lines for one go ({st}) {crash}", "fen": fen})
            elif mv not in ls:
                ctx.violation(f"go-illegal:{name}:{fen}", {"kind": "history", "lines": lines, "what": f"bestmove {mv} is not legal in the position", "fen": fen, "legal": sorted(ls)})
        if len(ctx.samples) < 3:
            ctx.sample({"fen": fen, "results": res[:4]})


# --------------------------------------------------------------------------------------------------
# C10: PV lines

def run_pv_session(item):
    fen, cmd, stop_after, env = item
    s = Session(env=env)
    try:
        s.send("setoption name currmoveLogInterval value 50")
        s.send(f"position {fen}")
        s.send(cmd)
        if stop_after is not None:
            time.sleep(stop_after)
            s.send("stop")
        got, st = wait_bestmove(s, 30.0)
        crash = "" if st == "match" else (crash_line(s) or st)
        return got, st, crash
    finally:
        s.kill()


PV_ENDS_EARLY = [
    "6rr/8/6q1/3Q4/8/k7/8/K7 w - - 0 1",       # Qb3+ Kxb3 stalemate: the only way not to lose
    "rr6/8/1q6/4Q3/8/7k/8/7K w - - 0 1",       # the same on the other wing
    "7k/8/5K2/8/8/8/8/6R1 w - - 0 1",          # mate in two
    "k7/8/1K6/8/8/8/8/7R w - - 0 1",           # mate in one
    "5k2/5P2/5K2/8/8/8/8/8 w - - 0 1",         # every move but one stalemates or loses the pawn
    "k7/2K5/1P6/8/8/8/8/8 w - - 0 1",          # b7+ Ka7 b8=Q+ ... lines with stalemate traps
]


def check_C10(ctx):
    n = ctx.size(24, 400)
    pool = small_pool(ctx, n, max_men=20 if ctx.quick else 32)
    items = []
    for f, cnt in pool:
        r = ctx.rng.random()
        env = {"VERIF_SLEEP": "rootmove:1:0:215", "VERIF_TRACE": "1"}   # opens the 200 ms print gate so every PV improvement is printed
        if r < 0.5:
            items.append((f, "go depth 3", None, env))
        elif r < 0.7:
            items.append((f, "go movetime 330", None, env))
        elif r < 0.85:
            items.append((f, "go infinite", 0.3 + ctx.rng.random() * 0.2, env))
        else:
            d, k = ctx.rng.choice([(2, 0), (2, 1), (3, 0), (3, 2)])
            items.append((f, "go movetime 400", None, dict(env, VERIF_EXPIRE=f"rootmove:{d}:{k}")))
    # lines that END inside the full-width part of the tree: a stalemate or a mate on the principal variation
    # (forced stalemate as the only way not to lose; mates in one and two), at several depths
    env0 = {"VERIF_SLEEP": "rootmove:1:0:215", "VERIF_TRACE": "1"}
    for f in gens.legal_filter(list(dict.fromkeys(PV_ENDS_EARLY + [gens.mirror_fen(x) for x in PV_ENDS_EARLY]))):
        for d in (3, 4, 5):
            items.append((f, f"go depth {d}", None, env0))
    results = parallel_map(run_pv_session, items, workers=min(8, infra.NCPU))
    pv_ops, pv_meta = [], []
    fens = [it[0] for it in items]
    legal = legal_set(fens)
    ctx.co["co_pv"] = len(items)
    for (fen, cmd, sa, env), (got, st, crash), ls in zip(items, results, legal):
        lines = [f"position {fen}", cmd]
        ctx.case(f"{fen}|{cmd}")
        if st != "match":
            ctx.violation(f"pv-nobest:{fen}:{cmd}", {"kind": "history", "lines": lines, "env": env, "what": "no bestmove: " + crash})
            continue
        last_pv = None
        iter_map = {}
        for l in got:
            if l.startswith("info string vsync iter"):
                iter_map = {}
            if l.startswith("info string"):
                continue
            if l.startswith("info"):
                inf = parse_info(l)
                if inf is None:
                    ctx.violation(f"pv-format:{fen}:{cmd}", {"kind": "history", "lines": lines, "env": env, "what": "malformed info line", "line": l})
                    continue
                if inf["kind"] in ("depth", "score"):
                    last_pv = inf["pv"]
                    pv_ops.append(f"spv\t{fen}\t{','.join(inf['pv'])}")
                    pv_meta.append((fen, cmd, env, l))
                    ctx.bump("pv_lines")
                    if inf["kind"] == "score":
                        ctx.bump("pv_mid_or_final")
                    if inf["score"].startswith("mate"):
                        ctx.bump("mate_scores")
                    if inf["kind"] == "depth":
                        iter_map = {}
                else:
                    ctx.bump("currmove_lines")
                    if inf["move"] not in ls or not (1 <= inf["number"] <= len(ls)):
                        ctx.violation(f"currmove:{fen}:{cmd}", {"kind": "history", "lines": lines, "env": env, "what": "currmove is not a legal root move with a valid 1-based number", "line": l})
                    prev = iter_map.get(inf["number"])
                    if prev is not None and prev != inf["move"]:
                        ctx.violation(f"currmove-number:{fen}:{cmd}", {"kind": "history", "lines": lines, "env": env, "what": "same currmovenumber names two different moves within one iteration", "line": l})
                    iter_map[inf["number"]] = inf["move"]
        bm = [l for l in got if l.startswith("bestmove")][-1]
        m = BESTMOVE_RE.match(bm)
        if not m or last_pv is None or m.group(1) != last_pv[0]:
            ctx.violation(f"pv-bestmove:{fen}:{cmd}", {"kind": "history", "lines": lines, "env": env, "what": "bestmove is not the first move of the last PV printed", "bestmove": bm, "last_pv": last_pv})
        if len(ctx.samples) < 3:
            ctx.sample({"fen": fen, "cmd": cmd, "output_tail": got[-3:]})
    res = run_batch(MDRV, pv_ops)
    ctx.evaluations += len(pv_ops)
    for (fen, cmd, env, l), r in zip(pv_meta, res):
        if not r or not r.startswith("ok"):
            ctx.violation(f"pv-illegal:{fen}:{cmd}", {"kind": "history", "lines": [f"position {fen}", cmd], "env": env, "what": "printed PV is not a legal line from the searched position: " + str(r), "line": l})


# --------------------------------------------------------------------------------------------------
# C11: interruption

def fresh_depth_result(fen, depth):
    s = Session()
    try:
        s.send(f"position {fen}")
        s.send(f"go depth {depth}")
        got, st = wait_bestmove(s, 60.0)
        if st != "match":
            return None
        bm = [l for l in got if l.startswith("bestmove")][-1].split()[1]
        fin = [parse_info(l) for l in got if l.startswith("info score")]
        fin = [x for x in fin if x]
        return {"bestmove": bm, "depth": fin[-1]["depth"] if fin else None, "pv": fin[-1]["pv"] if fin else None}
    finally:
        s.kill()


def run_interrupt(item):
    fen, mode, point, ctl = item
    env = {"VERIF_TRACE": "1"}
    if mode == "stop":
        env["VERIF_HOLD"] = point
        env["VERIF_CTL"] = ctl
        os.mkfifo(ctl)
    elif mode == "expire":
        env["VERIF_EXPIRE"] = point
    s = Session(env=env)
    try:
        s.send(f"position {fen}")
        if mode == "stop":
            s.send("go infinite")
            got, st = s.read_until(lambda l: l.startswith("info string vhold") or l.startswith("bestmove"), 8.0)
            held = st == "match" and got[-1].startswith("info string vhold")
            if st == "timeout":
                # the chosen point lies deeper than this position can be searched in the time allowed: stop normally
                s.send("stop")
                got2, st = wait_bestmove(s, 20.0)
                got += got2
            if held:
                s.send("stop")
                time.sleep(0.05)
                with open(ctl, "w") as f:
                    f.write("go\n")
                got2, st2 = wait_bestmove(s, 20.0)
                got += got2
                st = st2
            elif st == "match":
                pass  # search ended by itself before the point was reached
        elif mode == "expire":
            s.send("go movetime 300")
            got, st = wait_bestmove(s, 20.0)
        else:  # wall-clock stop
            s.send("go infinite")
            time.sleep(point)
            s.send("stop")
            got, st = wait_bestmove(s, 20.0)
        crash = "" if st == "match" else (crash_line(s) or st)
        return got, st, crash
    finally:
        s.kill()
        if mode == "stop":
            try:
                os.remove(ctl)
            except OSError:
                pass


def check_C11(ctx):
    n = ctx.size(16, 300)
    if ctx.quick:
        n = min(n, 40)     # every position costs ~11 hook-placed sessions; keeps the escalated quick tier within minutes
    pool = small_pool(ctx, n, max_men=14 if ctx.quick else 24)
    pool = [(f, c) for f, c in pool if c >= 2]
    # positions with a forced mate in two moves, interrupted late inside iteration 3 - the iteration that finds the
    # mate: a mate score seen in an unfinished iteration is no reason to keep that iteration
    mts, _ = mate_positions(ctx, 6 if ctx.quick else 60)
    m3 = [f for f, v in mts if v == "win 3"]
    m3c = run_batch(MDRV, [f"sgen\t{f}" for f in m3])
    matepool = [(f, int(kv(r).get("cnt", "0"))) for f, r in zip(m3, m3c)]
    matepool = [(f, c) for f, c in matepool if c >= 4 and f not in dict(pool)][: (6 if ctx.quick else 60)]
    ctx.bump("mate_in_two_positions", len(matepool))
    mateset = set(f for f, _ in matepool)
    pool = pool + matepool
    items = []
    k = 0
    for f, cnt in pool:
        pts = [(2, 0), (2, min(1, cnt - 1)), (3, 0), (3, min(2, cnt - 1)), (2, cnt - 1), (4, 0), (2, max(0, cnt - 2)), (3, max(0, cnt - 2)), (3, cnt - 1), (4, max(0, cnt - 2))]
        if f in mateset:
            pts = sorted(set([(3, cnt - 2), (3, cnt // 2), (3, max(0, cnt - 3)), (3, (3 * cnt) // 4)]))
        for mode in ("stop", "expire"):
            chosen = pts if f in mateset else ctx.rng.sample(pts, 2 if ctx.quick else 4)
            for (d, i) in chosen:
                k += 1
                items.append((f, mode, f"rootmove:{d}:{i}", os.path.join(BUILD, f"ctl_{os.getpid()}_{k}")))
            items.append((f, mode, f"iter:{ctx.rng.choice([1, 2, 3])}:0", os.path.join(BUILD, f"ctl_{os.getpid()}_{k}i")))
            k += 1
        items.append((f, "wall", 0.02 + ctx.rng.random() * 0.25, ""))
    results = parallel_map(run_interrupt, items, workers=min(8, infra.NCPU))
    ctx.co["co_interrupt"] = len(items)
    need = {}
    parsed = []
    for (fen, mode, point, ctl), (got, st, crash) in zip(items, results):
        lines = [f"position {fen}", f"interrupt mode={mode} point={point}"]
        ctx.case(f"{fen}|{mode}|{point}")
        ctx.bump("mode:" + mode)
        if st != "match":
            ctx.violation(f"int-nobest:{fen}:{mode}:{point}", {"kind": "schedule", "lines": lines, "what": "no bestmove after interruption: " + crash})
            continue
        depths = [parse_info(l) for l in got if l.startswith("info depth")]
        depths = [x for x in depths if x]
        completed = max([x["depth"] for x in depths], default=1)
        fin = [parse_info(l) for l in got if l.startswith("info score")]
        fin = [x for x in fin if x]
        bm = [l for l in got if l.startswith("bestmove")][-1].split()[1]
        reported = fin[-1]["depth"] if fin else None
        hook_fired = any(l.startswith(("info string vhold", "info string vexpire")) for l in got)
        parsed.append((fen, mode, point, completed, reported, bm, got, hook_fired))
        need[(fen, completed)] = None
        # an interruption placed after root move k < n-1 of iteration d leaves that iteration incomplete
        if mode in ("stop", "expire") and str(point).startswith("rootmove"):
            _, d_, k_ = point.split(":")
            nroot = dict(pool).get(fen, 0)
            reached = any(l.startswith(("info string vhold", "info string vexpire")) for l in got)
            # exception: a root move that mates on the spot ends the iteration at once by design (`nextMoveWins`, the
            # value cannot improve) - such an iteration IS complete although later root moves were not searched
            mate1 = any(x["depth"] == int(d_) and x["score"] == "mate 1" for x in depths)
            if reached and int(k_) < nroot - 1 and completed >= int(d_) and not mate1:
                ctx.violation(f"int-partial:{fen}:{mode}:{point}", {"kind": "schedule", "lines": lines, "what": f"iteration {d_} was interrupted after root move {k_} of {nroot} but is reported as completed (info depth {completed}); the move comes from a partially searched iteration",
                                                                   "output": [l for l in got if not l.startswith('info string vsync')][-4:]})
    keys = list(need)
    fres = parallel_map(lambda k_: fresh_depth_result(k_[0], k_[1]), keys, workers=min(8, infra.NCPU))
    for k_, r in zip(keys, fres):
        need[k_] = r
    for fen, mode, point, completed, reported, bm, got, hook_fired in parsed:
        ref = need[(fen, completed)]
        lines = [f"position {fen}", f"interrupt mode={mode} point={point}"]
        if mode != "wall":
            d = int(point.split(":")[1])
            # only when the interruption point was actually reached: a search that ends by itself before iteration d
            # (forced mate found, single legal move) never gets there and rightly keeps its last iteration
            if hook_fired and point.startswith("rootmove") and completed < d - 1:
                ctx.violation(f"int-lost:{fen}:{mode}:{point}", {"kind": "schedule", "lines": lines, "what": f"interrupted in iteration {d} but only iteration {completed} was kept"})
        if reported != completed:
            ctx.violation(f"int-depth:{fen}:{mode}:{point}", {"kind": "schedule", "lines": lines, "what": f"final info reports depth {reported}, deepest completed iteration printed is {completed}", "output": got[-4:]})
        if ref is None:
            continue
        # a fresh `go depth D` may stop earlier than D (mate found / single move): then compare at its depth only if equal
        if ref["depth"] == completed and ref["bestmove"] != bm:
            ctx.violation(f"int-leak:{fen}:{mode}:{point}", {"kind": "schedule", "lines": lines, "what": f"move {bm} after interruption differs from `go depth {completed}` = {ref['bestmove']} (deepest completed iteration {completed})",
                                                            "output": got[-4:], "fresh": ref})
        if len(ctx.samples) < 3:
            ctx.sample({"fen": fen, "mode": mode, "point": str(point), "completed": completed, "bestmove": bm, "fresh": ref})


# --------------------------------------------------------------------------------------------------
# C12: stop / isready at any moment

SCHED_CMDS = {
    "stop": ["stop"], "isready": ["isready"], "stop_stop": ["stop", "stop"], "isready_stop": ["isready", "stop"],
    "stop_isready": ["stop", "isready"],
}


def run_schedule(item):
    """hold the search thread at `phase`, process the command lines on the command thread, release, observe"""
    fen, phase, cmdname, ctl, go_again = item
    env = {"VERIF_HOLD": phase, "VERIF_CTL": ctl}
    os.mkfifo(ctl)
    s = Session(env=env)
    obs = {"phase": phase, "cmd": cmdname}
    released = False

    def release():
        nonlocal released
        if not released:
            released = True
            fd = os.open(ctl, os.O_WRONLY | os.O_NONBLOCK) if False else None
            with open(ctl, "w") as f:
                f.write("go\n")
    try:
        s.send(f"position {fen}")
        s.send("go infinite" if not phase.startswith(("prebest", "postbest")) else "go depth 2")
        got, st = s.read_until(lambda l: l.startswith("info string vhold") or l.startswith("bestmove"), 20.0)
        if not (st == "match" and got[-1].startswith("info string vhold")):
            obs["held"] = False
            obs["note"] = "phase not reached: " + st
            return obs, got
        obs["held"] = True
        for c in SCHED_CMDS[cmdname]:
            s.send(c)
        # watchdog: does the command thread still answer while the search is held?
        s.send("isready")
        n_ready_expected = SCHED_CMDS[cmdname].count("isready") + 1
        seen = []
        t_end = time.time() + 0.5
        while time.time() < t_end and sum(1 for l in seen if l == "readyok") < n_ready_expected:
            g, _ = s.read_until(lambda l: l == "readyok", max(0.01, t_end - time.time()))
            seen += g
        obs["answered_while_held"] = sum(1 for l in seen if l == "readyok") >= n_ready_expected
        release()
        g2, st2 = wait_bestmove(s, 8.0)
        seen += g2
        obs["bestmove_after_release"] = st2 == "match"
        # any readyok still owed?
        t_end = time.time() + 2.0
        while sum(1 for l in seen if l == "readyok") < n_ready_expected and time.time() < t_end:
            g, stx = s.read_until(lambda l: l == "readyok", max(0.01, t_end - time.time()))
            seen += g
            if stx == "eof":
                break
        obs["readyok_total"] = sum(1 for l in seen if l == "readyok")
        obs["readyok_expected"] = n_ready_expected
        if st2 != "match" and s.alive() and "stop" not in SCHED_CMDS[cmdname]:
            # nobody asked the search to stop: do it now so the run can finish (isready-only schedules)
            s.send("stop")
            g3, st3 = wait_bestmove(s, 8.0)
            seen += g3
            obs["bestmove_after_late_stop"] = st3 == "match"
        extra = s.drain(0.1)
        seen += extra
        obs["bestmoves"] = sum(1 for l in got + seen if l.startswith("bestmove"))
        # engine stays usable
        if s.alive():
            s.send("isready")
            g4, st4 = s.read_until(lambda l: l == "readyok", 3.0)
            obs["usable"] = st4 == "match"
            if go_again and st4 == "match":
                # "subsequent commands are served normally": the following searches are complete searches (a request
                # left over from the schedule must not end them early) - their analysis is compared with a fresh process
                s.send("go depth 3")
                g5, st5 = wait_bestmove(s, 30.0)
                obs["go_again"] = st5 == "match"
                if st5 == "match":
                    obs["go_again_analysis"] = analysis_of(g5)
                    s.send("stop")   # a GUI may always send a late stop
                    s.send("isready")
                    g6, st6 = s.read_until(lambda l: l == "readyok", 3.0)
                    obs["late_stop_ok"] = st6 == "match"
                    if st6 == "match":
                        s.send("go depth 3")
                        g7, st7 = wait_bestmove(s, 30.0)
                        obs["go_third_analysis"] = analysis_of(g7) if st7 == "match" else None
                        # and an infinite search started now runs until it is told to stop
                        s.send("go infinite")
                        g8, st8 = wait_bestmove(s, 0.4)
                        obs["infinite_ended_by_itself"] = st8 == "match"
                        if st8 != "match":
                            s.send("stop")
                            g9, st9 = wait_bestmove(s, 10.0)
                            obs["infinite_stopped"] = st9 == "match"
        else:
            obs["usable"] = False
        obs["alive"] = s.alive()
        obs["crash"] = crash_line(s)
        return obs, got + seen
    finally:
        try:
            if not released and obs.get("held"):
                release()
        except Exception:
            pass
        s.kill()
        try:
            os.remove(ctl)
        except OSError:
            pass


def run_overlap(item):
    """the previous search thread is still alive after its `bestmove` (held at `postbest`) while the GUI - which has
    seen the bestmove and may therefore go on - starts the next search and stops it: the stop must reach the
    running search whatever the old thread does on its way out"""
    fen, ctl, delay = item
    os.mkfifo(ctl)
    s = Session(env={"VERIF_HOLD": "postbest:-1:-1", "VERIF_CTL": ctl})
    obs = {}
    try:
        s.send(f"position {fen}")
        s.send("go depth 2")
        got, st = s.read_until(lambda l: l.startswith("info string vhold"), 20.0)
        if st != "match":
            return {"held": False}, got
        obs["held"] = True
        obs["first_bestmove"] = any(l.startswith("bestmove") for l in got)
        s.send("go infinite")
        time.sleep(delay)
        s.send("stop")
        s.send("isready")
        g1, st1 = s.read_until(lambda l: l == "readyok", 3.0)
        obs["answered"] = st1 == "match"
        with open(ctl, "w") as f:
            f.write("go\n")
        g2, st2 = wait_bestmove(s, 6.0)
        obs["second_bestmove"] = st2 == "match" or any(l.startswith("bestmove") for l in g1)
        if not obs["second_bestmove"]:
            s.send("stop")
            g3, st3 = wait_bestmove(s, 6.0)
            obs["second_stop_needed"] = st3 == "match"
        obs["crash"] = crash_line(s)
        return obs, got + g1 + g2
    finally:
        s.kill()
        try:
            os.remove(ctl)
        except OSError:
            pass


def run_nosearch_stop(_):
    """`stop` with no search ever started, and `stop` after a search that finished by itself"""
    out = {}
    s = Session()
    try:
        s.send("stop")
        s.send("isready")
        g, st = s.read_until(lambda l: l == "readyok", 3.0)
        out["stop_before_any_search"] = st == "match"
        s.send("isready")
        s.read_until(lambda l: l == "readyok", 3.0)
        s.send("stop")
        s.send("isready")
        g, st = s.read_until(lambda l: l == "readyok", 3.0)
        out["stop_after_isready"] = st == "match"
        s.send(f"position {START_FEN}")
        s.send("go depth 2")
        g, st = wait_bestmove(s, 10.0)
        time.sleep(0.05)
        s.send("stop")
        s.send("isready")
        g, st = s.read_until(lambda l: l == "readyok", 3.0)
        out["stop_after_finished_search"] = st == "match"
        s.send("go infinite")
        s.send("stop")
        g, st = wait_bestmove(s, 5.0)
        out["immediate_stop_honoured"] = st == "match"
        out["crash"] = crash_line(s)
        return out
    finally:
        s.kill()


STOP_HISTORIES = {
    "stop repeated after a stopped search": ["go infinite", "<sleep 0.1>", "stop", "<bestmove>", "stop"],
    "stop twice more after a stopped search": ["go infinite", "<sleep 0.05>", "stop", "<bestmove>", "stop", "stop"],
    "isready then stop before any search": ["isready", "stop"],
    "stop twice before any search": ["stop", "stop"],
    "late stop after a search that ended by itself": ["go depth 2", "<bestmove>", "stop"],
    "two late stops after a search that ended by itself": ["go depth 2", "<bestmove>", "stop", "stop"],
    "late stops after a movetime search": ["go movetime 50", "<bestmove>", "stop", "stop", "stop"],
    "stop, isready, stop after a stopped search": ["go infinite", "stop", "<bestmove>", "stop", "isready", "stop"],
    "late stop after a search of a mated root": ["position 7k/6Q1/6K1/8/8/8/8/8 b - - 0 1", "go infinite", "<sleep 0.1>", "stop", "stop"],
}


def run_stop_history(item):
    """a fixed history of stop requests around finished / stopped / absent searches, then: isready answered, a
    complete `go depth 3`, and a `go infinite` that runs until it is stopped"""
    name, fen = item
    s = Session()
    obs = {}
    try:
        s.send(f"position {fen}")
        for l in STOP_HISTORIES[name]:
            if l == "<bestmove>":
                wait_bestmove(s, 20.0)
            elif l.startswith("<sleep "):
                time.sleep(float(l[7:-1]))
            elif l == "isready":
                s.send(l)
                s.read_until(lambda x: x == "readyok", 3.0)
            else:
                s.send(l)
        s.send("isready")
        g, st = s.read_until(lambda x: x == "readyok", 3.0)
        obs["answered"] = st == "match"
        if st == "match":
            s.drain(0.02)
            a, st2 = probe(s, fen, 3)
            obs["analysis"] = a
            s.send("go infinite")
            g8, st8 = wait_bestmove(s, 0.4)
            obs["infinite_ended_by_itself"] = st8 == "match"
            if st8 != "match":
                s.send("stop")
                g9, st9 = wait_bestmove(s, 10.0)
                obs["infinite_stopped"] = st9 == "match"
        obs["crash"] = crash_line(s)
        return obs
    finally:
        s.kill()


def check_C12(ctx):
    fens = [START_FEN, KIWI_FEN, "8/2p5/3p4/KP5r/1R3p1k/8/4P1P1/8 w - - 0 1", "4k3/8/8/8/8/8/4P3/4K3 w - - 0 1"]
    phases = ["entry:0:0", "started:0:0", "rootmove:1:0", "rootmove:2:1", "rootmove:3:0", "iter:1:0", "iter:2:0", "prebest:-1:0", "postbest:-1:0"]
    items = []
    k = 0
    for ph in phases:
        for cn in SCHED_CMDS:
            reps = 1 if ctx.quick else 3
            for _ in range(reps):
                k += 1
                items.append((ctx.rng.choice(fens), ph, cn, os.path.join(BUILD, f"sctl_{os.getpid()}_{k}"), True))
    results = parallel_map(run_schedule, items, workers=min(8, infra.NCPU))
    ctx.co["co_schedule"] = len(items)
    # reference: the same follow-up search in a fresh process; positions whose infinite search ends by itself
    fresh, self_ending = {}, set()
    for f in fens:
        s0 = Session()
        try:
            a, st = probe(s0, f, 3)
            fresh[f] = a
            s0.send("go infinite")
            g, st = wait_bestmove(s0, 0.6)
            if st == "match":
                self_ending.add(f)
            else:
                s0.send("stop")
                wait_bestmove(s0, 10.0)
        finally:
            s0.kill()

    def _jl(v):
        return list(v) if isinstance(v, tuple) else v

    def summ(a):
        if not a:
            return "no analysis"
        ds = [x[1] for x in a if x[0] == "depth"]
        bm = [x[1] for x in a if x[0] == "bestmove"]
        return f"completed depths {ds}, bestmove {bm[-1] if bm else None}"
    for (fen, ph, cn, ctl, ga), res in zip(items, results):
        if not isinstance(res, tuple) or not isinstance(res[0], dict):
            raise RuntimeError(f"schedule error {res}")
        obs, out = res
        ctx.case(f"{ph}|{cn}")
        ctx.bump("phase:" + ph.split(":")[0])
        key = f"sched:{ph}:{cn}"
        lines = [f"position {fen}", "go infinite" if not ph.startswith(("prebest", "postbest")) else "go depth 2", f"<hold search at {ph}>"] + SCHED_CMDS[cn] + ["isready", "<release>"]
        lines += ["<wait for bestmove>", "isready", "go depth 3", "<wait for bestmove>", "stop", "isready", "go depth 3", "<wait for bestmove>", "go infinite", "<sleep 0.4s>", "stop", "<wait for bestmove>"]
        if not obs.get("held"):
            ctx.bump("phase_not_reached")
            continue
        problems = []
        if not obs.get("answered_while_held"):
            problems.append("command thread blocked while the search was held (isready not answered)")
        if "stop" in SCHED_CMDS[cn] or ph.startswith(("prebest", "postbest")):
            if not obs.get("bestmove_after_release"):
                problems.append("stop was lost: no bestmove after the search was released")
        else:
            if not obs.get("bestmove_after_release") and not obs.get("bestmove_after_late_stop"):
                problems.append("search orphaned: a later stop did not end it")
        if obs.get("bestmoves", 0) > 1:
            problems.append(f"{obs.get('bestmoves')} bestmove lines for one go")
        if obs.get("readyok_total", 0) < obs.get("readyok_expected", 0):
            problems.append("an isready was never answered")
        if not obs.get("alive") or not obs.get("usable"):
            problems.append("engine dead or not answering afterwards: " + obs.get("crash", ""))
        if obs.get("usable") and obs.get("go_again") is False:
            problems.append("a following go did not produce a bestmove")
        if obs.get("late_stop_ok") is False:
            problems.append("a stop after the following search finished wedged the engine")
        want = fresh.get(fen)
        for nm, what in (("go_again_analysis", "the `go depth 3` following the schedule"), ("go_third_analysis", "the `go depth 3` after a late `stop` (sent when that search had already finished)")):
            if nm in obs and want is not None and [list(map(_jl, x)) for x in (obs[nm] or [])] != [list(map(_jl, x)) for x in want]:
                problems.append(f"{what} was not served normally: its analysis differs from the same search in a fresh process ({summ(obs[nm])} vs {summ(want)})")
        if obs.get("infinite_ended_by_itself") and fen not in self_ending:
            problems.append("a `go infinite` sent after the schedule printed bestmove although no stop was sent for it")
        if obs.get("infinite_stopped") is False:
            problems.append("the `go infinite` sent after the schedule did not end on stop")
        if problems:
            ctx.violation(key, {"kind": "schedule", "lines": lines, "what": "; ".join(problems), "observed": obs, "fen": fen})
        if len(ctx.samples) < 4:
            ctx.sample({"phase": ph, "cmd": cn, "observed": obs})
    # fixed stop histories (repeated / late / early stops), each followed by complete searches
    sh_items = [(nm, f) for nm in STOP_HISTORIES for f in (START_FEN, KIWI_FEN)]
    for (nm, f), obs in zip(sh_items, parallel_map(run_stop_history, sh_items, workers=6)):
        if not isinstance(obs, dict):
            raise RuntimeError(f"stop history error {obs}")
        ctx.case(f"stop-history|{nm}|{f}")
        ctx.bump("stop_history")
        lines = [f"position {f}"] + STOP_HISTORIES[nm] + ["isready", f"position {f}", "go depth 3", "<wait for bestmove>", "go infinite", "<sleep 0.4s>", "stop", "<wait for bestmove>"]
        probs = []
        if not obs.get("answered"):
            probs.append("isready not answered after the history (command thread blocked or process dead): " + obs.get("crash", ""))
        else:
            want = fresh.get(f)
            got_a = obs.get("analysis")
            if want is not None and [list(map(_jl, x)) for x in (got_a or [])] != [list(map(_jl, x)) for x in want]:
                probs.append(f"the `go depth 3` after the history was not served normally: {summ(got_a)} vs {summ(want)} in a fresh process")
            if obs.get("infinite_ended_by_itself") and f not in self_ending:
                probs.append("a `go infinite` after the history printed bestmove although no stop was sent for it")
            if obs.get("infinite_stopped") is False:
                probs.append("the `go infinite` after the history did not end on stop")
        if probs:
            ctx.violation(f"stop-history:{nm}:{f}", {"kind": "history", "lines": lines, "what": f"history `{nm}`: " + "; ".join(probs), "observed": {k: v for k, v in obs.items() if k != "analysis"}})
    r = run_nosearch_stop(None)
    ctx.case("nosearch")
    for kname in ("stop_before_any_search", "stop_after_isready", "stop_after_finished_search", "immediate_stop_honoured"):
        if not r.get(kname):
            ctx.violation("nosearch:" + kname, {"kind": "schedule", "what": f"{kname} failed: " + r.get("crash", ""), "observed": r,
                                                "lines": {"stop_before_any_search": ["stop", "isready"], "stop_after_isready": ["isready", "stop", "isready"],
                                                          "stop_after_finished_search": ["position startpos", "go depth 2", "<bestmove>", "stop", "isready"],
                                                          "immediate_stop_honoured": ["position startpos", "go infinite", "stop"]}[kname]})
    # previous search thread still alive after its bestmove while the next search is started and stopped
    ov_items = [(f, os.path.join(BUILD, f"ctl_ov_{os.getpid()}_{i}"), d) for i, (f, d) in enumerate(
        [(START_FEN, 0.0), (START_FEN, 0.05), (KIWI_FEN, 0.0), (KIWI_FEN, 0.02), ("8/2p5/3p4/KP5r/1R3p1k/8/4P1P1/8 w - - 0 1", 0.01), (START_FEN, 0.2)])]
    for (f, ctl, d), (obs, out) in zip(ov_items, parallel_map(run_overlap, ov_items, workers=6)):
        ctx.case(f"overlap|{f}|{d}")
        ctx.bump("schedule:overlap_previous_thread_alive")
        if not obs.get("held"):
            ctx.bump("overlap_not_held")
            continue
        lines = [f"position {f}", "go depth 2", "<hold the search thread at postbest, after its bestmove>", "go infinite", f"<sleep {d}s>", "stop", "isready", "<release>"]
        if not obs.get("answered"):
            ctx.violation(f"overlap-block:{f}:{d}", {"kind": "schedule", "lines": lines, "what": "command thread blocked while the previous search thread was still alive", "observed": obs})
        elif not obs.get("second_bestmove"):
            ctx.violation(f"overlap-lost:{f}:{d}", {"kind": "schedule", "lines": lines, "what": "stop lost: the search started while the previous search thread was still exiting never ended"
                                                    + (" (a second stop ended it)" if obs.get("second_stop_needed") else "") + " " + obs.get("crash", ""), "observed": obs})
    # static access table (T1): conflicting unsynchronised accesses between the search thread and stop/isready
    shared = ctx.prep["facts"]["shared"]
    conflicts = shared_conflicts(shared)
    ctx.notes.append(f"static access table: {len(shared)} rows, {len(conflicts)} conflicting locations")
    for loc in conflicts:
        ctx.violation("race:" + loc, {"kind": "schedule", "what": f"unsynchronised shared state between command handling and the search: {loc}", "rows": [r for r in shared if r['location'] == loc],
                                      "lines": ["position startpos", "go infinite", "stop"]})
    if not ctx.quick and os.path.exists(infra.MAGOG_RACE):
        race_runs(ctx)


def shared_conflicts(shared):
    by = {}
    for r in shared:
        by.setdefault(r["location"], []).append(r)
    out = []
    for loc, rows in by.items():
        se = [r for r in rows if r["thread"] == "search" and not r["sync"]]
        cm = [r for r in rows if r["thread"] in ("stop", "isready") and not r["sync"]]
        if any(a["kind"] == "W" or b["kind"] == "W" for a in se for b in cm):
            out.append(loc)
    return sorted(out)


def race_runs(ctx):
    """best-effort implementation-side witness: -race binary under sleep-placed (non-synchronising) schedules"""
    found = 0
    for ph in ("started:0:0:30", "rootmove:2:0:30", "iter:2:0:30"):
        s = Session(env={"VERIF_SLEEP": ph}, binary=infra.MAGOG_RACE)
        try:
            s.send(f"position {START_FEN}")
            s.send("go infinite")
            time.sleep(0.25)
            s.send("stop")
            wait_bestmove(s, 20.0)
            s.send("quit")
            s.wait_exit(5)
            if "DATA RACE" in s.stderr_text():
                found += 1
        finally:
            s.kill()
    ctx.notes.append(f"race detector runs: 3, reports: {found} (absence of a report proves nothing)")
    if found:
        ctx.violation("race-detector", {"kind": "schedule", "what": "Go race detector reported a data race under a stop schedule", "lines": ["position startpos", "go infinite", "stop"]})


# --------------------------------------------------------------------------------------------------
# C13: time allotment

LAT_T = [-1, 0, 1, 49, 50, 51, 52, 99, 100, 101, 1000, 60000, 10**9, 10**11, 2**42]
LAT_I = [0, 1, 50, 1000, 10**6]
LAT_M = [None, 1, 2, 30, 40, 10**6]


def check_C13(ctx):
    ops, meta = [], []
    for side in "wb":
        for wt in LAT_T:
            for bt in LAT_T:
                for wi in LAT_I:
                    for bi in LAT_I:
                        for m in LAT_M:
                            mm = 30 if m is None else m
                            ops.append(f"time\t{side}\t{wt}\t{bt}\t{wi}\t{bi}\t{mm}")
                            meta.append((side, wt, bt, wi, bi, mm))
    nrand = ctx.size(20000, 400000)
    for _ in range(nrand):
        side = ctx.rng.choice("wb")
        def tv():
            r = ctx.rng.random()
            if r < 0.1:
                return ctx.rng.randint(-1000, 100)
            if r < 0.6:
                return ctx.rng.randint(0, 600000)
            return ctx.rng.randint(0, 2**42)
        wt, bt = tv(), tv()
        wi, bi = ctx.rng.choice([0, 0, ctx.rng.randint(0, 30000), ctx.rng.randint(0, 10**7)]), ctx.rng.choice([0, ctx.rng.randint(0, 30000)])
        mm = ctx.rng.choice([1, 2, 5, 30, 40, ctx.rng.randint(1, 200), ctx.rng.randint(1, 10**6)])
        ops.append(f"time\t{side}\t{wt}\t{bt}\t{wi}\t{bi}\t{mm}")
        meta.append((side, wt, bt, wi, bi, mm))
    go = run_batch(HDRV, ops)
    model = run_batch(MDRV, ops)
    ctx.co["co_time"] = len(ops)
    val = {}
    co = []
    for i, (o, g) in enumerate(zip(ops, go)):
        ctx.case(o)
        if canon(g) != canon(model[i]):
            co.append(i)
        if g and g.startswith("ok "):
            val[meta[i]] = int(g[3:])
    margin = int(ctx.prep["facts"]["consts"]["antiflagMillis"]["value"])
    # the property itself on the engine's values
    for (side, wt, bt, wi, bi, mm), a in val.items():
        left, inc = (wt, wi) if side == "w" else (bt, bi)
        key = f"time:{side}:{wt}:{bt}:{wi}:{bi}:{mm}"
        lines = [f"position 4k3/8/8/8/8/8/8/4K3 {side} - - 0 1", f"go wtime {wt} btime {bt} winc {wi} binc {bi} movestogo {mm}"]
        if a < 1 or a > max(1, left - 50):
            ctx.violation(key, {"kind": "input", "lines": lines, "what": f"allotted {a} ms outside [1, max(1, remaining - 50 ms safety margin)] with remaining {left}", "allotted": a})
        # own clock only
        other = (side, wt, 7777 if side == "w" else bt, wi, 3 if side == "w" else bi, mm) if side == "w" else (side, 7777, bt, 3, bi, mm)
    # own-clock / monotonicity on lattice neighbours
    def get(side, left, inc, mm, oleft=1000, oinc=0):
        k = (side, left, oleft, inc, oinc, mm) if side == "w" else (side, oleft, left, oinc, inc, mm)
        return val.get(k)
    for side in "wb":
        for mm in [1, 2, 30, 40, 10**6]:
            for inc in LAT_I:
                prev = None
                for left in LAT_T:
                    a = get(side, left, inc, mm)
                    if a is None:
                        continue
                    # opponent's clock must not matter
                    for ol in (0, 60000, 2**42):
                        for oi in (0, 1000):
                            b = get(side, left, inc, mm, ol, oi)
                            if b is not None and b != a:
                                ctx.violation(f"time-other:{side}:{left}:{inc}:{mm}", {"kind": "input", "what": "allotment depends on the opponent's clock", "side": side, "left": left, "inc": inc, "movestogo": mm, "values": [a, b],
                                                                                   "lines": [f"go wtime/btime {left} ... (side {side})"]})
                    if prev is not None and a < prev[1]:
                        ctx.violation(f"time-mono-left:{side}:{left}:{inc}:{mm}", {"kind": "input", "what": f"more remaining time yields less: {prev[0]}->{prev[1]} ms, {left}->{a} ms", "side": side, "inc": inc, "movestogo": mm,
                                                                               "lines": [f"go (side {side}) time {prev[0]} vs {left} inc {inc} movestogo {mm}"]})
                    prev = (left, a)
            for left in LAT_T:
                prev = None
                for inc in LAT_I:
                    a = get(side, left, inc, mm)
                    if a is None:
                        continue
                    if prev is not None and a < prev[1]:
                        ctx.violation(f"time-mono-inc:{side}:{left}:{inc}:{mm}", {"kind": "input", "what": "more increment yields less time", "side": side, "left": left, "movestogo": mm, "values": [prev, (inc, a)],
                                                                              "lines": [f"go (side {side}) time {left} inc {prev[0]} vs {inc} movestogo {mm}"]})
                    prev = (inc, a)
        for left in LAT_T:
            for inc in LAT_I:
                prev = None
                for mm in [1, 2, 30, 40, 10**6]:
                    a = get(side, left, inc, mm)
                    if a is None:
                        continue
                    if prev is not None and a > prev[1]:
                        ctx.violation(f"time-mono-mtg:{side}:{left}:{inc}:{mm}", {"kind": "input", "what": "more moves to go yields more time", "side": side, "left": left, "inc": inc, "values": [prev, (mm, a)],
                                                                              "lines": [f"go (side {side}) time {left} inc {inc} movestogo {prev[0]} vs {mm}"]})
                    prev = (mm, a)
    if co and not ctx.violations:
        i = co[0]
        ctx.violation("time-model:" + ops[i], {"kind": "unproved", "correspondence": "co_time", "op": ops[i], "engine": go[i], "model": model[i],
                                              "what": "calcEndtime and the Lean model differ; the bounds/monotonicity sweep found no failing input"}, found=False)
    ctx.sample({"op": ops[0], "engine": go[0], "model": model[0]})
    go_parse_check(ctx)
    wallclock_check(ctx)


def observe_deadline(lines_list):
    """for each (fen, go line): the deadline `go` computed (hook), through the real doGo parse"""
    out = []
    s = Session(env={"VERIF_DEADLINE": "1"})
    try:
        for fen, goline in lines_list:
            if not s.alive():
                s.kill()
                s = Session(env={"VERIF_DEADLINE": "1"})
            s.send(f"position {fen}")
            s.send(goline)
            s.send("isready")
            got, st = s.read_until(lambda l: l == "readyok", 5.0)
            dl = [l for l in got if l.startswith("info string vdeadline")]
            if st != "match":
                out.append(("crash", crash_line(s) or st))
                s.kill()
                s = Session(env={"VERIF_DEADLINE": "1"})
                continue
            if dl:
                parts = dl[-1].split()
                s.send("stop")
                g2, st2 = wait_bestmove(s, 10.0) if not any(l.startswith("bestmove") for l in got) else ([], "match")
                if st2 != "match":
                    out.append(("nobest", crash_line(s) or st2))
                    s.kill()
                    s = Session(env={"VERIF_DEADLINE": "1"})
                    continue
                out.append(("ok", f"millis={parts[3]} depth={parts[5]}"))
            else:
                out.append(("ok", "reject"))
        return out
    finally:
        s.kill()


def go_parse_check(ctx):
    """doGo's token parsing and deadline selection through the real command path vs the model's goParams"""
    rng = ctx.rng
    n = ctx.size(150, 3000)
    cases = []
    kws = ["wtime", "btime", "winc", "binc", "movestogo", "depth", "movetime", "infinite"]
    for _ in range(n):
        side = rng.choice("wb")
        toks = []
        for kw in rng.sample(kws, rng.randint(0, 5)):
            if kw == "infinite":
                toks.append(kw)
                continue
            if kw == "movestogo":
                v = rng.choice([1, 2, 10, 30, 40, 100])
            elif kw == "depth":
                v = rng.choice([1, 2, 3, 5, 40])
            elif kw == "movetime":
                v = rng.choice([1, 49, 50, 51, 60, 100, 1000, 10**6])
            else:
                v = rng.choice([0, 1, 49, 50, 51, 100, 1000, 30000, 10**7, 10**9, -1, -50])
            toks += [kw, str(v)]
            # tokens the engine does not know (other UCI keywords and their values, an empty token from a double
            # blank) may stand anywhere between the keyword/value pairs: they are skipped one by one
            if rng.random() < 0.25:
                toks += rng.choice([["ponder"], ["searchmoves", "e1e2"], ["searchmoves", "e1e2", "e1d1"], ["nodes", "1000"], [""], ["mate", "3", "ponder"]])
        if toks and rng.random() < 0.2:
            toks = rng.choice([["ponder"], ["searchmoves", "e1e2", "e1d1"], [""]]) + toks
        cases.append((f"4k3/8/8/8/8/8/8/4K3 {side} - - 0 1", "go " + " ".join(toks) if toks else "go", side))
    # a depth limit together with the clock, in every position of the line (fixed cases, both sides)
    for side in "wb":
        for g in ("go depth 30 wtime 400 btime 400", "go wtime 400 depth 30 btime 400", "go wtime 400 btime 400 depth 30", "go depth 5 btime 900 wtime 700 movestogo 10",
                  "go winc 10 depth 3 binc 10 wtime 1000 btime 2000", "go movestogo 2 depth 40 wtime 5000 btime 3000", "go depth 1 wtime 60000 btime 60000 winc 1000 binc 1000",
                  "go searchmoves e1e2 e1d1 wtime 2000 btime 2000 winc 0 binc 0", "go ponder wtime 2000 btime 2000", "go wtime 2000  btime 2000", "go  wtime 2000 btime 2000",
                  "go searchmoves e1e2 movetime 300", "go ponder depth 2 wtime 900 btime 900"):
            cases.insert(0, (f"4k3/8/8/8/8/8/8/4K3 {side} - - 0 1", g, side))
    chunks = [cases[i::8] for i in range(8)]
    res = parallel_map(lambda ch: observe_deadline([(f, g) for f, g, _ in ch]), chunks, workers=8)
    flat_cases, flat_res = [], []
    for ch, r in zip(chunks, res):
        flat_cases += ch
        flat_res += r
    mops = [f"goparams\t{side}\t{hexs(g[2:].strip())}" for f, g, side in flat_cases]
    model = run_batch(MDRV, mops)
    ctx.co["co_goparams"] = len(mops)
    for (fen, goline, side), (st, val), m in zip(flat_cases, flat_res, model):
        ctx.case("goparams:" + side + goline)
        got = "ok " + val if st == "ok" else "panic"
        # property-level rule, independent of the model and of the order of the tokens: when the line gives the
        # mover's own clock (and neither movetime nor infinite), the allotment is within [1, max(1, own clock - 50)]
        tk = goline.split(" ")[1:]
        if st == "ok" and "movetime" not in tk and "infinite" not in tk:
            # the value that follows the first occurrence of the mover's clock keyword, wherever it stands
            ownkw = "wtime" if side == "w" else "btime"
            own = None
            if ownkw in tk and tk.index(ownkw) + 1 < len(tk) and re.fullmatch(r"-?\d+", tk[tk.index(ownkw) + 1]) and tk.count(ownkw) == 1:
                own = tk[tk.index(ownkw) + 1]
            mm = re.search(r"millis=(-?\d+)", val)
            if own is not None and mm and int(own) >= 0:
                a, left = int(mm.group(1)), int(own)
                if not (1 <= a <= max(1, left - 50)):
                    ctx.violation("goparams-bound:" + side + ":" + goline, {"kind": "input", "lines": [f"position {fen}", goline], "engine": got,
                                                                           "what": f"the search started by this line is allotted {a} ms; the mover's own clock shows {left} ms (allowed: 1 .. max(1, clock - 50))"})
        if canon(got) != canon(m):
            # the model is the reference for what the property demands here (own clock, margin): report as correspondence
            ctx.violation("goparams:" + side + ":" + goline, {"kind": "unproved", "correspondence": "co_goparams", "lines": [f"position {fen}", goline], "engine": got, "model": m,
                                                           "what": "deadline/depth chosen by `go` differs from the model of doGo"}, found=False)


LOCKED_POSITIONS = ["8/4k3/8/1p1p1p1p/pPpPpPpP/P1P1P1P1/8/4K3 w - - 0 1", "8/4k3/8/1p1p1p1p/pPpPpPpP/P1P1P1P1/8/4K3 b - - 0 1",
                    "4k3/3b4/8/1p1p1p1p/pPpPpPpP/P1P1P1P1/3B4/4K3 w - - 0 1"]


def wallclock_check(ctx):
    """bestmove no later than the deadline plus the minimal depth-1 search (measured, exploration)"""
    n = ctx.size(6, 60)
    pool = small_pool(ctx, n, max_men=24)

    def one(item):
        fen, T = item
        s = Session(env={"VERIF_DEADLINE": "1"})
        try:
            s.send(f"position {fen}")
            s.send("go depth 1")
            t0 = time.time()
            wait_bestmove(s, 20.0)
            d1 = time.time() - t0
            s.send(f"position {fen}")
            t0 = time.time()
            s.send(f"go movetime {T}")
            got, st = wait_bestmove(s, 20.0)
            el = time.time() - t0
            return d1, el, st
        finally:
            s.kill()
    items = [(f, ctx.rng.choice([60, 120, 300])) for f, _ in pool]
    # locked positions without any capture or promotion in the whole tree: the leaves never enter the quiescence
    # move loop, so only the polls of the full-width loops can notice the deadline; budgets long enough for the
    # deadline to fall deep inside a root-move subtree
    for f in LOCKED_POSITIONS:
        for T in ([400, 900, 1500] if ctx.quick else [300, 400, 650, 900, 1200, 1500, 2100]):
            items.append((f, T))
    res = parallel_map(one, items, workers=4)
    worst = 0.0
    for (fen, T), r in zip(items, res):
        if not isinstance(r, tuple) or len(r) != 3:
            continue
        d1, el, st = r
        ctx.case(f"wall:{fen}:{T}")
        allowed = (T - 50) / 1000.0 + max(d1 * 3, 0.05) + 0.25
        worst = max(worst, el - (T - 50) / 1000.0)
        if st != "match" or el > allowed:
            ctx.violation(f"wall:{fen}:{T}", {"kind": "input", "lines": [f"position {fen}", f"go movetime {T}"], "what": f"bestmove after {el:.3f}s, allowed {allowed:.3f}s (deadline {T-50} ms + depth-1 search {d1:.3f}s + slack)"})
    ctx.notes.append(f"wall-clock (partial, measured): worst overshoot beyond deadline {worst:.3f}s over {len(items)} runs")
    # the same clause after session histories: whatever was searched before (terminal roots, infinite searches,
    # stopped / finished / rejected searches), a timed `go` answers by its deadline
    def after_history(item):
        name, go_line, ms = item
        s = Session()
        try:
            for l in EXIT_STATES[name]:
                if l == "<bestmove>":
                    wait_bestmove(s, 20.0)
                elif l.startswith("<sleep "):
                    time.sleep(float(l[7:-1]))
                else:
                    s.send(l)
            # consume everything the history printed (a terminal root answers `bestmove 0000` at once)
            s.send("isready")
            s.read_until(lambda l: l == "readyok", 10.0)
            s.drain(0.02)
            s.send("position startpos moves e2e4")
            t0 = time.time()
            s.send(go_line)
            got, st = wait_bestmove(s, ms / 1000.0 + 3.0)
            return time.time() - t0, st
        finally:
            s.kill()
    hist = [h for h in EXIT_STATES if not h.startswith("mid-")]
    hitems = [(h, g, ms) for h in hist for (g, ms) in (("go wtime 3000 btime 3000 winc 0 binc 0 movestogo 10", 250), ("go movetime 200", 150))]
    for (h, g, ms), r in zip(hitems, parallel_map(after_history, hitems, workers=4)):
        if not isinstance(r, tuple):
            continue
        el, st = r
        ctx.case(f"wall-history:{h}:{g}")
        ctx.bump("wall_after_history")
        allowed = ms / 1000.0 + 0.45
        if st != "match" or el > allowed:
            ctx.violation(f"wall-history:{h}:{g}", {"kind": "history", "lines": EXIT_STATES[h] + ["position startpos moves e2e4", g],
                                                   "what": f"after the history `{h}` the timed search answered after {el:.3f}s ({st}); its deadline is {ms} ms after `go` (allowed {allowed:.3f}s with the depth-1 search and slack)"})

# --------------------------------------------------------------------------------------------------
# C04 / C05: search values

def parse_search(line):
    """hdrv `search` / mdrv `msearch` line -> list of dicts per depth"""
    out = []
    if not line or not line.startswith("ok"):
        return None
    for part in line.split(" | ")[1:]:
        out.append(kv(part))
    return out


def promo_capture_family(rng, n):
    """sparse legal positions in which a pawn can capture a queen or rook onto the last rank (often both sides)"""
    out = ["1q6/P7/1K6/8/7k/8/4p3/3Q4 w - - 0 1", "3q4/4P3/8/7K/8/1k6/p7/1Q6 b - - 0 1"]
    for _ in range(n * 3):
        b = [["." for _ in range(8)] for _ in range(8)]

        def put(c, r, f):
            if 0 <= r < 8 and 0 <= f < 8 and b[r][f] == ".":
                b[r][f] = c
                return True
            return False
        f = rng.randint(0, 7)
        put("P", 6, f)
        put(rng.choice("qr"), 7, f + rng.choice([-1, 1]))
        if rng.random() < 0.5:
            put(rng.choice("qrnb."), 7, f)
        if rng.random() < 0.7:
            g = rng.randint(0, 7)
            put("p", 1, g)
            put(rng.choice("QR"), 0, g + rng.choice([-1, 1]))
        for c in rng.choice(["", "Q", "q", "R", "r", "Qq", "Rr", "N", "n", "B", "b", "Qr", "qR"]):
            put(c, rng.randint(1, 6), rng.randint(0, 7))
        for k in "Kk":
            for _t in range(30):
                if put(k, rng.randint(0, 7), rng.randint(0, 7)):
                    break
        out.append(f"{gens.board_to_fen(b)} {rng.choice('wb')} - - 0 1")
        out.append(gens.mirror_fen(out[-1]))
    return gens.legal_filter(list(dict.fromkeys(out)))[:n]


def value_pool(ctx, n):
    """positions for value comparison with the depth chosen so that the Lean reference stays affordable:
    the engine searches first (fast), one more iteration at a time, and reports its node count per iteration;
    a position is searched one ply deeper only while the previous iteration stayed far below the budget, so a
    dense position never costs more than one short search (an engine search that does not finish within the
    per-operation timeout is skipped here as too expensive - hangs are C17/C18's subject, not C04's)"""
    pool = small_pool(ctx, int(n * 1.3), max_men=32)
    # swings larger than a queen inside quiescence: pawns that capture a heavy piece onto the last rank, for both
    # sides, with other heavy pieces en prise - where a pruning rule based on "a capture gains at most a queen" fails
    pc = promo_capture_family(ctx.rng, 30 if ctx.quick else 400)
    pcc = run_batch(MDRV, [f"sgen\t{f}" for f in pc])
    pool = [(f, int(kv(r).get("cnt", "0"))) for f, r in zip(pc, pcc) if int(kv(r).get("cnt", "0")) >= 1] + pool   # first: kept by the cut below
    ctx.bump("promotion_capture_family", len(pc))
    maxd = 3 if ctx.quick else 4
    budget = 9000 if ctx.quick else 60000
    best = {}                      # fen -> (depth, line)
    live = [f for f, _ in pool]
    for d in range(1, maxd + 1):
        go = run_batch(HDRV, [f"search\t{f}\t{d}" for f in live], timeout_per_op=20.0)
        nxt = []
        for f, g in zip(live, go):
            its = parse_search(g)
            if its is None:
                if (g or "").startswith("crash hang"):
                    ctx.bump("engine_search_timeout_skipped")
                elif f not in best:
                    best[f] = (1, g)            # crash: keep, it will be reported
                continue
            nodes = int(its[-1].get("nodes", "0")) if its else 0
            if len(its) < d:
                continue                        # single legal move / mate: engine stops deepening in `search`? keep previous
            if nodes <= budget:
                best[f] = (d, g)
                if nodes * 12 <= budget:
                    nxt.append(f)
            elif f not in best:
                ctx.bump("skipped_too_expensive")
        live = nxt
        if not live:
            break
    out = []
    for f, cnt in pool:
        if f in best:
            d, g = best[f]
            out.append((f, d, cnt, g))
    return out[:n]


def check_C04(ctx):
    n = ctx.size(110, 2500)
    pool4 = value_pool(ctx, n)
    pool = [(f, d, c) for f, d, c, _ in pool4]
    go = [g for _, _, _, g in pool4]
    # the reference search carries a budget of oracle consultations (about one per searched move): a tree the
    # full-evaluation reference cannot afford ends as ` | budget` and only its completed iterations are compared
    rbudget = 300000 if ctx.quick else 3000000
    mops = [f"msearch\t{f}\t{d}\t0\t{rbudget}" for f, d, _ in pool]
    ref = run_batch(MDRV, mops, shards=infra.NCPU, timeout_per_op=300.0)
    ctx.co["co_value"] = len(mops)
    admitted = 0
    for (f, d, cnt), g, r in zip(pool, go, ref):
        ctx.case(f"{f}|{d}")
        ctx.bump(f"depth_{d}")
        gi, ri = parse_search(g), parse_search(r)
        if gi is None or ri is None:
            if canon(g) == "panic" or canon(r) == "panic":
                ctx.violation(f"value-crash:{f}:{d}", {"kind": "input", "fen": f, "depth": d, "what": "search crashed (engine or model)", "engine": (g or "")[:300], "model": (r or "")[:300],
                                                      "lines": [f"position {f}", f"go depth {d}"]})
            continue
        if ri and "score" not in ri[-1]:
            ri = ri[:-1]
            ctx.bump("reference_budget_exceeded")
        for a, b in zip(gi, ri):
            if a.get("score") != b.get("score"):
                if int(a.get("wrong", "0")) > 0:
                    admitted += 1
                    ctx.bump("lazy_sensitive_admitted")
                    continue
                ctx.violation(f"value:{f}:{a.get('d')}", {"kind": "input", "fen": f, "depth": a.get("d"), "what": "score of a completed iteration differs from the exact minimax value (reference search with full evaluation); no wrong lazy shortcut occurred in this tree",
                                                         "engine": a, "reference": b, "lines": [f"position {f}", f"go depth {a.get('d')}"]})
                break
            if a.get("score") == b.get("score") and abs(int(a.get("score"))) > 90000:
                ctx.bump("mate_valued")
        if len(ctx.samples) < 3:
            ctx.sample({"fen": f, "depth": d, "engine": gi[min(d, len(gi)) - 1], "reference": ri[-1] if ri else "budget"})
    ctx.notes.append(f"lazy-sensitive trees admitted: {admitted}")
    iteration_sequence_check(ctx, pool)


def iteration_sequence_check(ctx, pool):
    """`go depth d` completes exactly iterations 1..d unless single legal move / mate no longer than the depth"""
    sub = ctx.rng.sample(pool, min(len(pool), ctx.size(30, 400)))

    def one(item):
        f, d, cnt = item
        dd = min(d + 1, 3)
        s = Session()
        try:
            s.send(f"position {f}")
            s.send(f"go depth {dd}")
            got, st = wait_bestmove(s, 120.0)
            return dd, got, st
        finally:
            s.kill()
    res = parallel_map(one, sub, workers=8)
    ctx.co["co_iterations"] = len(sub)
    for (f, d, cnt), r in zip(sub, res):
        if not isinstance(r, tuple) or len(r) != 3:
            continue
        dd, got, st = r
        ctx.case(f"iters:{f}:{dd}")
        if st != "match":
            continue   # crash classes belong to C03/C17
        deps = [parse_info(l) for l in got if l.startswith("info depth")]
        deps = [x for x in deps if x]
        seq = [x["depth"] for x in deps]
        fin = [parse_info(l) for l in got if l.startswith("info score")]
        fin = [x for x in fin if x]
        last = fin[-1] if fin else None
        done = last["depth"] if last else None
        ok = seq == list(range(2, (done or 1) + 1))
        early_ok = True
        if done is not None and done < dd:
            sc = last["score"]
            mate_short = sc.startswith("mate") and abs(int(sc.split()[1])) * 2 - (1 if int(sc.split()[1]) > 0 else 0) <= done + 1
            early_ok = cnt == 1 or sc.startswith("mate")
        if not ok or not early_ok:
            ctx.violation(f"iters:{f}:{dd}", {"kind": "input", "lines": [f"position {f}", f"go depth {dd}"], "what": f"completed iterations {seq} / final depth {done} for go depth {dd} with {cnt} legal moves", "output": got[-5:]})


MATE_THEMES = [
    # pawnless, at most one minor piece each: mates exist although `insufficient material` rules of thumb call them drawn
    "kb6/8/1K6/3B4/8/8/8/8 b - - 0 1", "kn6/2N5/1K6/8/8/8/8/8 b - - 0 1", "kn6/1B6/1K6/8/8/8/8/8 b - - 0 1", "8/8/8/8/8/6k1/5n2/6NK w - - 0 1",
    "kb6/8/1K2B3/8/8/8/8/8 w - - 0 1", "kn6/8/1K6/3N4/8/8/8/8 w - - 0 1",
    "k7/pPK5/8/8/8/8/8/8 b - - 0 1",             # mated by a pawn, mating side has no officer
    "k7/p1K5/1P6/8/8/8/8/8 w - - 0 1",           # pawn mate in one
    "k7/2K5/1P6/8/8/8/8/8 w - - 0 1",            # king and pawn, promotion mate later
    "k7/P7/K7/8/8/8/8/8 b - - 0 1",              # stalemate by king and pawn
    "6rk/6pp/8/6N1/8/8/8/6K1 w - - 0 1",         # smothered mate in one
    "6k1/5ppp/8/8/8/8/8/R5K1 w - - 0 1",         # back-rank mate in one
    "6k1/4P3/6K1/8/8/8/8/8 w - - 0 1",           # promotion mate in one (queen or rook)
    "7k/5K2/8/6N1/8/8/8/7B w - - 0 1",           # bishop and knight
    "7k/8/5K2/8/8/8/8/6R1 w - - 0 1",            # rook: mate in two
    "5k2/8/5K2/8/8/8/8/Q7 w - - 0 1",            # queen: mate in one, several ways
    "4k3/8/4K3/8/8/8/8/R6R w - - 0 1",           # two rooks
    "r3k2r/8/8/8/8/8/8/4K2R b kq - 0 1",         # castling available to the mating side
    "7k/8/8/8/2b5/8/PP6/K5r1 w - - 0 1",         # in check, single reply
    "7k/7P/6K1/8/8/8/8/8 b - - 0 1",             # stalemate: king behind the enemy pawn
    "8/8/8/8/8/5k2/5p2/5K2 w - - 0 1",           # stalemate, pawn in front of the king
    "5k2/5P2/5K2/8/8/8/8/8 b - - 0 1",           # stalemate, mirrored colours of the previous
    "8/8/8/8/1pP5/8/k1K5/8 b - c3 0 1",          # en passant available while short of moves
    "1k6/1P6/1K6/8/8/8/8/7B w - - 0 1",          # bishop + pawn, mate in two
    "k7/8/1K6/8/8/8/8/7R w - - 0 1",             # rook mate in one
    "kr6/pp6/8/1N6/8/8/8/K7 w - - 0 1",          # smothered corner: Nc7 mate
]


def mate_positions(ctx, n):
    """sparse constructive positions; the AND/OR specification decides forced mates up to 3 plies"""
    rng = ctx.rng
    cands = []
    mats = ["Q", "R", "RR", "QR", "QQ", "RB", "QN", "BB", "RN", "Qp", "Rp", "QPp", "RRp",
            "P", "PP", "PPp", "Pp", "NN", "BN", "NNP", "BP", "NP", "PPP"]      # incl. attackers without officers
    for _ in range(n * 6):
        b = [["." for _ in range(8)] for _ in range(8)]
        # defender king near the edge, attacker king nearby
        bk = (rng.choice([0, 7]), rng.randint(0, 7)) if rng.random() < 0.7 else (rng.randint(0, 7), rng.choice([0, 7]))
        b[bk[0]][bk[1]] = "k"
        while True:
            wk = (min(7, max(0, bk[0] + rng.randint(-3, 3))), min(7, max(0, bk[1] + rng.randint(-3, 3))))
            if max(abs(wk[0] - bk[0]), abs(wk[1] - bk[1])) > 1:
                break
        b[wk[0]][wk[1]] = "K"
        for c in rng.choice(mats):
            for _t in range(20):
                r, f = rng.randint(0, 7), rng.randint(0, 7)
                if b[r][f] == "." and not (c in "Pp" and r in (0, 7)):
                    b[r][f] = c
                    break
        fen = f"{gens.board_to_fen(b)} {rng.choice('wb')} - - 0 1"
        cands.append(fen)
        cands.append(gens.mirror_fen(fen))
    cands = gens.legal_filter(cands)
    res = run_batch(MDRV, [f"smate\t{f}\t3" for f in cands], shards=infra.NCPU, timeout_per_op=120.0)
    mates, others = [], []
    for f, r in zip(cands, res):
        if r and r.startswith("ok win") or r and r.startswith("ok lose"):
            mates.append((f, r[3:]))
        elif r == "ok none":
            others.append((f, "none"))
    rng.shuffle(mates)
    rng.shuffle(others)
    # thematic mates and stalemates, one per mating piece kind / mechanism, always included (with colour mirrors):
    # the specification classifies them like every other candidate
    themes = gens.legal_filter(list(dict.fromkeys(MATE_THEMES + [gens.mirror_fen(f) for f in MATE_THEMES])))
    tres = run_batch(MDRV, [f"smate\t{f}\t3" for f in themes], shards=infra.NCPU, timeout_per_op=120.0)
    tm = [(f, r[3:]) for f, r in zip(themes, tres) if r and (r.startswith("ok win") or r.startswith("ok lose"))]
    to = [(f, "none") for f, r in zip(themes, tres) if r == "ok none"]
    ctx.bump("mate_themes", len(tm) + len(to))
    have = set(f for f, _ in tm + to)
    return tm + [x for x in mates if x[0] not in have][:n], to + [x for x in others if x[0] not in have][:n // 2]


def check_C05(ctx):
    n = ctx.size(40, 700)
    mates, others = mate_positions(ctx, n)
    sg = run_batch(MDRV, [f"sgen\t{f}" for f, _ in mates + others])
    cnts = [int(kv(r).get("cnt", "0")) for r in sg]
    items = [(f, v, c) for (f, v), c in zip(mates + others, cnts)]

    def one(item):
        f, v, cnt = item
        if cnt == 0:
            return None
        s = Session()
        try:
            s.send(f"position {f}")
            s.send("go depth 3")
            got, st = wait_bestmove(s, 60.0)
            return got, st
        finally:
            s.kill()
    res = parallel_map(one, items, workers=8)
    ctx.co["co_mate"] = len(items)
    follow = []
    for (f, v, cnt), r in zip(items, res):
        ctx.case(f"mate:{f}")
        ctx.bump("spec:" + v.split()[0])
        if cnt == 0 or r is None:
            ctx.bump("terminal_root")
            continue
        got, st = r
        lines = [f"position {f}", "go depth 3"]
        if st != "match":
            continue
        fin = [parse_info(l) for l in got if l.startswith("info score")]
        fin = [x for x in fin if x]
        if not fin:
            continue
        sc = fin[-1]["score"]
        bm = [l for l in got if l.startswith("bestmove")][-1].split()[1]
        if v == "none":
            if sc.startswith("mate"):
                # no forced mate within 3 plies, yet a mate is announced: it may be a real longer one found beyond the
                # horizon by quiescence (C05.V_mate_exact: a depth-d search can prove mates up to d+1 plies) - ask the
                # specification at exactly the announced length
                k = int(sc.split()[1])
                nplies = 2 * k - 1 if k > 0 else 2 * abs(k)
                if nplies <= 5:
                    rr = run_batch(MDRV, [f"smate\t{f}\t{nplies}"], timeout_per_op=300.0)[0]
                    want = ("win " if k > 0 else "lose ") + str(nplies)
                    if not rr or rr[3:] != want:
                        ctx.violation(f"mate-unsound:{f}", {"kind": "input", "lines": lines, "what": f"engine announces {sc} (a forced {'win' if k > 0 else 'loss'} in {nplies} plies) but the AND/OR specification says `{(rr or '')[3:]}` within {nplies} plies", "output": got[-3:]})
                    else:
                        ctx.bump("mate_beyond_horizon_confirmed")
            continue
        kind, k = v.split()
        k = int(k)
        if cnt == 1:
            ctx.bump("single_move_root")
            continue   # the engine deliberately answers after depth 1
        # UCI: `mate N` in full moves; negative when the engine's side is being mated
        exp = (k + 1) // 2 if kind == "win" else -(k // 2)
        if sc != f"mate {exp}":
            ctx.violation(f"mate-exact:{f}", {"kind": "input", "lines": lines, "what": f"forced {kind} in {k} plies (specification) but engine reports {sc}; expected mate {exp}", "output": got[-3:]})
        else:
            ctx.bump("mate_exact_ok")
            follow.append((f, kind, k, bm))
        if len(ctx.samples) < 3:
            ctx.sample({"fen": f, "spec": v, "engine": sc, "bestmove": bm})
    # a mate in one is announced by the depth-1 iteration already (the mated position is classified at the horizon)
    m1 = [(f, cnt) for f, v, cnt in items if v == "win 1" and cnt > 1]

    def one_d1(item):
        f, _ = item
        s = Session()
        try:
            s.send(f"position {f}")
            s.send("go depth 1")
            got, st = wait_bestmove(s, 60.0)
            return got, st
        finally:
            s.kill()
    for (f, _), r in zip(m1, parallel_map(one_d1, m1, workers=8)):
        ctx.case(f"mate1-d1:{f}")
        if r is None or r[1] != "match":
            continue
        fin = [x for x in (parse_info(l) for l in r[0] if l.startswith("info score")) if x]
        if fin and fin[-1]["score"] != "mate 1":
            ctx.violation(f"mate1-depth1:{f}", {"kind": "input", "lines": [f"position {f}", "go depth 1"], "what": f"mate in one on the board but `go depth 1` reports {fin[-1]['score']}, expected mate 1", "output": r[0][-3:]})
    ctx.bump("mate_in_one_at_depth_1", len(m1))
    # the move played keeps the distance
    if follow:
        ar = run_batch(MDRV, [f"smateafter\t{f}\t{bm}\t3" for f, kind, k, bm in follow], shards=infra.NCPU, timeout_per_op=120.0)
        for (f, kind, k, bm), r in zip(follow, ar):
            ctx.evaluations += 1
            want = f"ok lose {k - 1}" if kind == "win" else f"ok win {k - 1}"
            if r != want:
                ctx.violation(f"mate-keep:{f}", {"kind": "input", "lines": [f"position {f}", "go depth 3"], "what": f"bestmove {bm} does not keep the mate distance: after it the specification says {r}, expected {want[3:]}"})
    # terminal classification and boundedness of non-mate evaluations on a broad pool
    pool = core_positions(ctx, 1500, 60000)
    # the thematic mates and stalemates themselves, and every position one legal move after a thematic position
    # (a mate in one leads to a mated position): classification at the horizon is what `eval` and depth-1 searches use
    themes = gens.legal_filter(list(dict.fromkeys(MATE_THEMES + [gens.mirror_fen(f) for f in MATE_THEMES])))
    kids = [f2 for _, steps in gens.playouts(ctx.rng, themes, 20 * len(themes), 1) for _, f2 in steps]
    pool = list(dict.fromkeys(pool + themes + kids))
    ctx.bump("theme_positions_and_children", len(themes) + len(kids))
    ev = run_batch(HDRV, [f"eval\t{f}" for f in pool])
    sg = run_batch(MDRV, [f"sgen\t{f}" for f in pool])
    close = int(ctx.prep["facts"]["consts"]["ScoreCloseToMate"]["value"])
    lost = int(ctx.prep["facts"]["consts"]["LostScore"]["value"])
    ctx.co["co_terminal"] = len(pool)
    mx = 0
    for f, e, g in zip(pool, ev, sg):
        d, sd = kv(e), kv(g)
        ctx.case("term:" + f)
        if "full" not in d:
            continue
        full = int(d["full"])
        cnt, chk = int(sd.get("cnt", "0")), sd.get("chk")
        if cnt == 0:
            ctx.bump("no_legal_move")
            exp = lost if chk == "1" else 0
            if full != exp:
                ctx.violation(f"terminal:{f}", {"kind": "input", "fen": f, "lines": [f"position {f}", "eval"], "what": f"position without legal moves (in check: {chk}) evaluates to {full}, expected {exp}"})
        else:
            mx = max(mx, abs(full), abs(int(d["cheap"])))
            if abs(full) > close or abs(int(d["cheap"])) > close:
                ctx.violation(f"evalrange:{f}", {"kind": "input", "fen": f, "lines": [f"position {f}", "eval"], "what": f"non-mate evaluation {full} / {d['cheap']} outside the cp range (ScoreCloseToMate {close})"})
    ctx.notes.append(f"largest |evaluation| seen on non-terminal positions: {mx} (ScoreCloseToMate {close})")
    blend_hypothesis_check(ctx)
    # formatScore on the whole interesting range: Go vs model
    scores = list(range(-100000, -99900)) + list(range(99900, 100001)) + list(range(-close - 5, -close + 6)) + list(range(close - 5, close + 6)) + [0, 1, -1, 50000, -50000]
    fo = [f"fmt\t{x}" for x in scores]
    a, b = run_batch(HDRV, fo), run_batch(MDRV, fo)
    ctx.co["co_format"] = len(fo)
    for o, x, y in zip(fo, a, b):
        if x != y:
            ctx.violation("fmt:" + o, {"kind": "unproved", "correspondence": "co_format", "op": o, "engine": x, "model": y, "what": "formatScore differs from the model"}, found=False)
            break


# --------------------------------------------------------------------------------------------------
# C07: position replay and notation

TWO_RANK_STEPS = [
    ("4k3/8/8/8/2p5/8/3R4/4K3 w - - 0 1", ["d2d4", "e8e7"]), ("4k3/8/8/8/2p5/8/3Q4/4K3 w - - 0 1", ["d2d4", "e8e7"]),
    ("4k3/8/8/8/2p5/8/1B6/4K3 w - - 0 1", ["b2d4", "e8e7"]), ("4k3/8/8/8/2p5/8/1Q6/4K3 w - - 0 1", ["b2d4", "e8e7"]),
    ("4k3/8/8/8/1p6/8/3N4/4K3 w - - 0 1", ["d2c4", "e8e7"]), ("4k3/8/8/8/2p5/8/3P4/4K3 w - - 0 1", ["d2d3", "e8e7", "d3d4", "e7e8"]),
    ("4k3/8/8/8/2p5/8/3P4/4K3 w - - 0 1", ["d2d4", "c4d3"]), ("4k3/8/8/8/2p1p3/8/3P4/4K3 w - - 0 1", ["d2d4", "e4d3"]),
    ("4k3/8/8/8/1p6/8/R7/4K3 w - - 0 1", ["a2a4", "e8e7"]), ("4k3/8/8/8/6p1/8/7R/4K3 w - - 0 1", ["h2h4", "e8e7"]),
    ("r3k2r/8/8/8/1p4p1/8/R6R/4K3 w kq - 0 1", ["a2a4", "e8g8", "h2h4", "f8e8"]),
]


def check_C07(ctx):
    rng = ctx.rng
    suite = gens.suite_fens()
    games = ctx.size(120, 3000)
    plies = 120 if ctx.quick else 500
    con = gens.legal_filter(gens.constructive(rng, 40))
    pl = gens.playouts(rng, [START_FEN] * 6 + [KIWI_FEN] * 2 + suite[:20] + con, games, plies)
    for st, mvs in gens.critical_games()[: ctx.size(10, 200)]:
        pl.append((st, [(m, None) for m in mvs]))
    # every kind of man stepping from its side's second rank to the fourth (straight, diagonal, knight jump, two
    # single pawn steps) next to an enemy pawn: only a pawn's double step creates an en passant target
    for st, mvs in TWO_RANK_STEPS:
        for k in range(1, len(mvs) + 1):      # every prefix: the position right after the step is compared too
            pl.append((st, [(m, None) for m in mvs[:k]]))
            pl.append((gens.mirror_fen(st), [(gens.mirror_move(m), None) for m in mvs[:k]]))
    ops, sops, meta = [], [], []
    for fen, steps in pl:
        if not steps:
            continue
        mvs = [m for m, _ in steps]
        form = rng.choice(["startpos", "fen", "bare"]) if fen == START_FEN else rng.choice(["fen", "bare"])
        txt = [m[:4] + m[4:].upper() if (len(m) == 5 and rng.random() < 0.5) else m for m in mvs]
        if form == "startpos":
            line = "position startpos moves " + " ".join(txt)
        elif form == "fen":
            line = f"position fen {fen} moves " + " ".join(txt)
        else:
            line = f"position {fen} moves " + " ".join(txt)
        ops.append("uci\t" + line)
        sops.append("sgame\t" + fen + "\t" + "\t".join(mvs))
        meta.append((fen, mvs, form, line))
    # each game in a fresh driver process state is not needed: position replaces the generator
    go = run_batch(HDRV, ops)
    spec = run_batch(MDRV, sops)
    ctx.co["co_position"] = len(ops)
    for (fen, mvs, form, line), g, sp in zip(meta, go, spec):
        ctx.case(line[:300])
        ctx.bump("form:" + form)
        ctx.bump("plies", len(mvs))
        m = re.search(r"snap=\[(.*?)\]", g or "")
        snap = kv(m.group(1)) if m else {}
        last = (sp or "").split(" | ")[-1]
        sd = kv(last)
        if "nomove" in (sp or ""):
            continue   # criticalPositions game not legal per spec: outside the precondition
        ply0 = (int(fen.split()[5]) - 1) * 2 + (1 if fen.split()[1] == "b" else 0)
        got = (snap.get("B"), snap.get("f"), snap.get("ep"), snap.get("ply"))
        exp = (sd.get("B"), sd.get("f"), sd.get("ep"), str(ply0 + len(mvs)))
        if got != exp:
            # shrink: shortest prefix that already differs
            k = shrink_position(fen, mvs, form)
            ctx.violation(f"position:{form}:{fen}:{' '.join(mvs[:k])}", {"kind": "history", "lines": [render_position(fen, mvs[:k], form)], "what": "position after `position ... moves ...` differs from playing the moves by the rules (or the command was rejected / crashed)",
                                                                        "engine": (g or "")[:300], "spec": exp})
        if len(ctx.samples) < 3:
            ctx.sample({"line": line[:160], "engine": got})
    # pairs of `position` commands in ONE process, the second one textually related to the first (what a GUI sends
    # move after move, and near-prefixes): a command must set up its position whatever command came before it
    pops, pmeta = [], []
    def pair(first, fen2, mvs2, form2, kind):
        pops.append("uci\t" + first)
        pops.append("uci\t" + render_position(fen2, mvs2, form2))
        pmeta.append((first, fen2, mvs2, form2, kind))
    for fen, steps in pl[:ctx.size(60, 400)]:
        mvs = [m for m, _ in steps][:rng.randint(1, 12)]
        if not mvs:
            continue
        form = rng.choice(["fen", "bare"])
        parts = fen.split(" ")
        k = rng.randint(0, len(mvs) - 1)
        pair(render_position(fen, mvs[:k], form), fen, mvs, form, "incremental")           # same game, more moves
        pair(render_position(fen, mvs, form), fen, mvs[:k], form, "shorter")                # same game, fewer moves
        for extra in ("0", str(rng.randint(1, 9))):                                         # move number with one more digit
            n2 = parts[5] + extra
            if 1 <= int(n2) <= 9999:
                fen2 = " ".join(parts[:5] + [n2])
                pair(render_position(fen, [], form), fen2, mvs, form, "counter-digit")
                pair(render_position(fen, mvs[:k], form), fen2, mvs, form, "counter-digit-moves")
        other = [m for m, _ in rng.choice(pl)[1]][:6]
        pair(render_position(fen, mvs, form), fen, mvs[:k] + [], "bare" if form == "fen" else "fen", "other-form")
    pg = run_batch(HDRV, pops, shards=1)
    psp = run_batch(MDRV, ["sgame\t" + fen2 + ("\t" + "\t".join(mvs2) if mvs2 else "") for _, fen2, mvs2, _, _ in pmeta])
    ctx.co["co_position_pairs"] = len(pmeta)
    for i, ((first, fen2, mvs2, form2, kind), sp) in enumerate(zip(pmeta, psp)):
        g = pg[2 * i + 1]
        ctx.case("pair|" + first[:120] + "|" + render_position(fen2, mvs2, form2)[:160])
        ctx.bump("pair:" + kind)
        if "nomove" in (sp or ""):
            continue
        m = re.search(r"snap=\[(.*?)\]", g or "")
        snap = kv(m.group(1)) if m else {}
        sd = kv((sp or "").split(" | ")[-1]) if mvs2 else None
        ply0 = (int(fen2.split()[5]) - 1) * 2 + (1 if fen2.split()[1] == "b" else 0)
        if sd is None:
            ipl, ifl, iep, _ = independent_fen_read(fen2)
            exp = (ipl, ifl, iep, str(ply0))
        else:
            exp = (sd.get("B"), sd.get("f"), sd.get("ep"), str(ply0 + len(mvs2)))
        got = (snap.get("B"), snap.get("f"), snap.get("ep"), snap.get("ply"))
        if got != exp:
            ctx.violation(f"position-pair:{kind}:{first}:{render_position(fen2, mvs2, form2)}",
                          {"kind": "history", "lines": [first, render_position(fen2, mvs2, form2)],
                           "what": f"the second of two `position` commands in one session ({kind}) did not set up its own position: placement/flags/ep/ply {got}, by the rules {exp}",
                           "engine": (g or "")[:300]})
    # forms without a move list
    fops, fmeta = [], []
    for f in rng.sample(suite, min(len(suite), 30)) + [START_FEN]:
        for form in ("fen", "bare"):
            fops.append("uci\t" + render_position(f, [], form))
            fmeta.append((f, form))
    fg = run_batch(HDRV, fops)
    fs = run_batch(MDRV, [f"sgame\t{f}" for f, _ in fmeta])
    for (f, form), g in zip(fmeta, fg):
        ctx.case(f"pos:{form}:{f}")
        m = re.search(r"snap=\[(.*?)\]", g or "")
        snap = kv(m.group(1)) if m else {}
        if snap.get("B") != gens.placement64(f):
            ctx.violation(f"position-form:{form}:{f}", {"kind": "input", "lines": [render_position(f, [], form)], "what": f"`position` in the {form} form did not set up the given position", "engine": (g or "")[:300]})
    # notation: all 64*64*5 moves, Go round trip and Go vs model
    promos = [0, 2, 4, 8, 16]
    ops1 = []
    for a in range(64):
        for b in range(64):
            for pr in promos:
                ops1.append(f"mvstr\t{(a//8)*16+a%8}\t{(b//8)*16+b%8}\t{pr}")
    r1 = run_batch(HDRV, ops1)
    m1 = run_batch(MDRV, ops1)
    ops2 = [f"mv\t{hexs(x[3:])}" if x and x.startswith("ok ") else "mv\t00" for x in r1]
    r2 = run_batch(HDRV, ops2)
    m2 = run_batch(MDRV, ops2)
    ctx.co["co_notation"] = len(ops1)
    ctx.evaluations += len(ops1)
    for o, x, y, z, w in zip(ops1, r1, r2, m1, m2):
        _, a, b, pr = o.split("\t")
        if y != f"ok {a} {b} {pr}":
            ctx.violation("notation:" + o, {"kind": "input", "what": f"printed move {x} parses back to {y}, expected {a} {b} {pr}", "op": o, "lines": ["(round trip of Move.String through parseMoveString)"]})
            break
        if x != z or y != w:
            ctx.violation("notation-model:" + o, {"kind": "unproved", "correspondence": "co_notation", "op": o, "engine": [x, y], "model": [z, w], "what": "move notation differs from the model"}, found=False)
            break
    # upper-case promotion letters and arbitrary case
    extra = ["a7a8Q", "a7a8q", "A7A8Q", "e2e4", "E2E4", "h2h1N", "h2h1n", "b7b8R", "b7b8B"]
    e1 = run_batch(HDRV, [f"mv\t{hexs(x)}" for x in extra])
    e2 = run_batch(MDRV, [f"mv\t{hexs(x)}" for x in extra])
    for x, a, b in zip(extra, e1, e2):
        ctx.case("mv:" + x)
        if a != b:
            ctx.violation("notation-case:" + x, {"kind": "unproved", "correspondence": "co_notation", "input": x, "engine": a, "model": b, "what": "parseMoveString differs from the model"}, found=False)
        low = run_batch(HDRV, [f"mv\t{hexs(x.lower())}"])[0]
        if a != low:
            ctx.violation("notation-upper:" + x, {"kind": "input", "what": f"move string {x} parses differently from its lower-case form", "engine": [a, low], "lines": [f"position startpos moves {x}"]})


def render_position(fen, mvs, form):
    tail = (" moves " + " ".join(mvs)) if mvs else ""
    if form == "startpos":
        return "position startpos" + tail
    if form == "fen":
        return f"position fen {fen}" + tail
    return f"position {fen}" + tail


def shrink_position(fen, mvs, form):
    lo = 0
    for k in range(0, len(mvs) + 1):
        g = run_batch(HDRV, ["uci\t" + render_position(fen, mvs[:k], form)])[0]
        sp = run_batch(MDRV, ["sgame\t" + fen + ("\t" + "\t".join(mvs[:k]) if k else "")])[0]
        m = re.search(r"snap=\[(.*?)\]", g or "")
        snap = kv(m.group(1)) if m else {}
        sd = kv((sp or "").split(" | ")[-1]) if k else {"B": gens.placement64(fen)}
        if snap.get("B") != sd.get("B") or (k and (snap.get("f"), snap.get("ep")) != (sd.get("f"), sd.get("ep"))):
            return k
        if k > 40:
            break
    return len(mvs)


# --------------------------------------------------------------------------------------------------
# C08: FEN loading

def independent_fen_read(fen):
    """independent FEN reader (Python): (placement64, flags, ep0x88, ply)"""
    parts = fen.split(" ")
    pl = gens.placement64(fen)
    flags = (1 if parts[1] == "w" else 0) + (2 if "K" in parts[2] else 0) + (4 if "Q" in parts[2] else 0) + (8 if "k" in parts[2] else 0) + (16 if "q" in parts[2] else 0)
    ep = 136 if parts[3] == "-" else (int(parts[3][1]) - 1) * 16 + (ord(parts[3][0]) - 97)
    ply = (int(parts[5]) - 1) * 2 + (0 if parts[1] == "w" else 1)
    return pl, str(flags), str(ep), str(ply)


UNREPRESENTABLE = [
    ("no kings", "8/8/8/8/8/8/8/8 w - - 0 1"),
    ("no white king", "4k3/8/8/8/8/8/8/8 w - - 0 1"),
    ("no black king", "8/8/8/8/8/8/8/4K3 w - - 0 1"),
    ("two black kings", "4k2k/8/8/8/8/8/8/4K3 w - - 0 1"),
    ("two white kings", "4k3/8/8/8/8/8/8/K3K3 w - - 0 1"),
    ("nine white pawns", "4k3/8/8/8/8/P7/PPPPPPPP/4K3 w - - 0 1"),
    ("nine black pawns", "4k3/pppppppp/p7/8/8/8/8/4K3 w - - 0 1"),
    ("nine pawns in a rank string", "ppppppppp/8/8/8/8/8/8/8 w - - 0 1"),
    ("sixteen white pieces", "4k3/8/8/8/8/QQQQQQQQ/QQQQQQQQ/4K3 w - - 0 1"),
    ("sixteen black pieces", "4k3/qqqqqqqq/qqqqqqqq/8/8/8/8/4K3 b - - 0 1"),
    ("fifteen white officers and a pawn (no room for the promotion)", "7k/P7/8/8/8/8/NNNNNNNN/RNBQKBNR w KQ - 0 1"),
    ("fifteen black officers and a pawn (no room for the promotion)", "rnbqkbnr/nnnnnnnn/8/8/8/8/p7/7K b kq - 0 1"),
    ("thirteen white officers and three pawns", "7k/PPP5/8/8/8/8/2NNNNNN/RNBQKBNR w KQ - 0 1"),
    ("eight pawns and eight officers", "7k/8/8/8/8/7N/PPPPPPPP/RNBQKBNR w KQ - 0 1"),
    ("white pawn on rank 8", "P3k3/8/8/8/8/8/8/4K3 w - - 0 1"),
    ("white pawn on rank 1", "4k3/8/8/8/8/8/8/P3K3 w - - 0 1"),
    ("black pawn on rank 1", "4k3/8/8/8/8/8/8/p3K3 b - - 0 1"),
    ("black pawn on rank 8", "p3k3/8/8/8/8/8/8/4K3 b - - 0 1"),
    ("move number beyond the ply counter", "4k3/8/8/8/8/8/8/4K3 w - - 0 16385"),
    ("move number beyond the ply counter", "4k3/8/8/8/8/8/8/4K3 b - - 0 20000"),
    ("move number far beyond", "4k3/8/8/8/8/8/8/4K3 w - - 0 999999999"),
    ("side not to move in check (rook)", "4k3/8/8/8/8/8/8/4RK2 w - - 0 1"),
    ("side not to move in check (pawn)", "8/8/8/3k4/4P3/8/8/4K3 w - - 0 1"),
    ("side not to move in check (knight, black to move)", "4k3/8/8/8/8/5n2/8/4K3 b - - 0 1"),
    ("kings adjacent", "8/8/8/8/8/8/4k3/4K3 w - - 0 1"),
    ("rank with nine files by digits", "4k3/8/8/8/8/8/8/4K4 w - - 0 1"),
    ("rank overflow by digits", "4k3/8/8/8/8/8/8/88K w - - 0 1"),
    ("rank overflow by digits", "4k3/8/8/8/8/8/8/8K w - - 0 1"),
    ("seven files", "4k3/8/8/8/8/8/8/4K2 w - - 0 1"),
]


LENIENT_REPRESENTATIVES = [
    # one fixed representative per recorded relaxation of the loader (known_findings.json, C08 "lenient fields")
    b"rnbqkbnr/pppppppp/8/8/8/8/PPPPPPPP/RNBQKBNR w ABC - 0 1",
    b"rnbqkbnr/pppppppp/8/8/8/8/PPPPPPPP/RNBQKBNR w KQkq x 0 1",
    b"rnbqkbnr/pppppppp/8/8/8/8/PPPPPPPP/RNBQKBNR w KQkq - zz 1",
    b"rnbqkbnr/pppppppp/8/8/8/8/PPPPPPPP/RNBQKBNR w KQkq - 0 +1",
    b"rnbqkbnr/pppppppp/44/8/8/8/PPPPPPPP/RNBQKBNR w KQkq - 0 1",
]


def fen_byte_families(rng, bases, quick):
    """systematic near-valid strings: every single-byte substitution (all 256 values) at every position of a few
    base FENs, and every two-byte en passant field over 7-bit bytes on bases with and without a pushed pawn"""
    out = []
    subs = bases[: (4 if quick else 80)]
    for b in subs:
        bb = b.encode()
        for i in range(len(bb)):
            for v in range(256):
                if v in (9, 10) or v == bb[i]:
                    continue
                out.append(bb[:i] + bytes([v]) + bb[i + 1:])
    ep_bases = [b for b in bases if b.split()[3] != "-"][: (2 if quick else 8)]
    ep_bases += ["rnbqkbnr/pppppppp/8/8/4P3/8/PPPP1PPP/RNBQKBNR b KQkq e3 0 1", "rnbqkbnr/ppp1pppp/8/3p4/4P3/8/PPPP1PPP/RNBQKBNR w KQkq d6 0 2"]
    for b in ep_bases:
        parts = b.split(" ")
        for x in range(128):
            for y in range(128):
                if x in (9, 10, 32) or y in (9, 10, 32):
                    continue
                out.append(" ".join(parts[:3]).encode() + b" " + bytes([x, y]) + b" " + " ".join(parts[4:]).encode())
    return out


def fen_decision_check(ctx, strings, go=None):
    """C08 as a decision on arbitrary strings: accepted <=> standard FEN syntax, legal position (Lean specification),
    move number 1..maxFullMoveCounter; accepted strings carry their meaning. The acceptance of the recorded lenient
    forms is reported as KNOWN-FINDING (matched by relaxation class = call site), anything else as a violation
    with the string as the failing input."""
    import fenoracle
    maxn = int(ctx.prep["facts"]["consts"]["maxFullMoveCounter"]["value"])
    ops = [f"fen\t{b.hex()}" for b in strings]
    if go is None:
        go = run_batch(HDRV, ops)
    rel = [fenoracle.relaxed(b) for b in strings]
    texts = sorted({fenoracle.canon_text(r[0], r[1]) for r in rel if r and 1 <= r[1] <= maxn})
    legal = dict(zip(texts, run_batch(MDRV, [f"slegal\t{t}" for t in texts])))
    lenient_texts = sorted({fenoracle.canon_text(r[0], r[1]) for r in rel if r and r[2] and 1 <= r[1] <= maxn})
    canon_go = dict(zip(lenient_texts, run_batch(HDRV, [f"fen\t{hexs(t)}" for t in lenient_texts])))
    ctx.co["co_fen_decision"] = ctx.co.get("co_fen_decision", 0) + len(strings)
    ctx.evaluations += len(strings)
    for b, g, r in zip(strings, go, rel):
        acc = (g or "").startswith("ok")
        if not acc and g != "fenerr":
            continue      # crash: reported by the caller
        std = fenoracle.standard(b)
        t = fenoracle.canon_text(r[0], r[1]) if r and 1 <= r[1] <= maxn else None
        is_legal = t is not None and legal.get(t) == "ok 1"
        want = std is not None and is_legal
        shown = b.decode("latin-1")
        if acc and want:
            d = kv(g)
            exp = independent_fen_read(t)
            if (d.get("B"), d.get("f"), d.get("ep"), d.get("ply")) != exp:
                ctx.violation("fen-meaning:" + b.hex(), {"kind": "input", "lines": ["position " + shown, "tostr"], "hex": b.hex(), "what": "valid FEN of a legal position not loaded with its meaning", "engine": g[:300], "expected": exp})
            ctx.bump("decision:accept_ok")
        elif acc and not want:
            if r and r[2] and is_legal:
                same = re.sub(r"^ok ", "", canon_go.get(t) or "") == re.sub(r"^ok ", "", g)
                if same:
                    for tag in sorted(r[2]):
                        ctx.bump("decision:lenient:" + tag)
                        ctx.violation("fen-lenient:" + tag, {"kind": "input", "lines": ["position " + shown, "tostr"], "hex": b.hex(), "what": f"not a syntactically valid FEN ({tag}) but accepted; " + fenoracle.TAG_SITES[tag]})
                    continue
                ctx.violation("fen-lenient-meaning:" + b.hex(), {"kind": "input", "lines": ["position " + shown, "tostr"], "hex": b.hex(), "what": "a string in one of the lenient forms is loaded as a different position than the FEN it is taken to mean", "engine": g[:300], "canonical": t, "canonical_engine": (canon_go.get(t) or "")[:300]})
                continue
            why = "not in FEN syntax" if r is None else ("move number outside 1..%d" % maxn if t is None else "not a legal position according to the specification")
            ctx.violation("fen-accepts:" + b.hex(), {"kind": "input", "lines": ["position " + shown, "tostr"], "hex": b.hex(), "what": f"a string that is not a valid FEN of a legal position ({why}) is accepted instead of being rejected with `invalid FEN`", "engine": g[:300]})
        elif not acc and want:
            ctx.violation("fen-rejects:" + b.hex(), {"kind": "input", "lines": ["position " + shown], "hex": b.hex(), "what": "a syntactically valid FEN of a legal position with a move number in range is rejected", "canonical": t})
        else:
            ctx.bump("decision:reject_ok")


def check_C08(ctx):
    rng = ctx.rng
    n = ctx.size(3000, 150000)
    pool, fam = gens.position_pool(rng, n // 2)
    valid = []
    for f in pool:
        parts = f.split()
        parts[5] = str(rng.choice([1, 1, 2, 50, 175, 176, 500, 4999, 9999, rng.randint(1, 9999)]))
        parts[4] = str(rng.choice([0, 0, 3, 49, 99]))
        valid.append(" ".join(parts))
    ctx.bump("valid_fens", len(valid))
    # faithful loading: engine snapshot vs the independent reader
    go = run_batch(HDRV, [f"fen\t{hexs(f)}" for f in valid])
    model = run_batch(MDRV, [f"fen\t{hexs(f)}" for f in valid])
    ctx.co["co_fen_valid"] = len(valid)
    co = []
    for f, g, m in zip(valid, go, model):
        ctx.case("fen:" + f)
        if canon(g) != canon(m):
            co.append(("fen\t" + hexs(f), f, g, m))
        d = kv(g)
        exp = independent_fen_read(f)
        got = (d.get("B"), d.get("f"), d.get("ep"), d.get("ply"))
        if not (g or "").startswith("ok") or got != exp:
            ctx.violation("fen-load:" + f, {"kind": "input", "lines": [f"position {f}", "tostr"], "what": "valid FEN of a legal position not loaded with its meaning", "engine": (g or "")[:300], "expected": exp})
        elif snapshot_inconsistent(d):
            ctx.violation("fen-lists:" + f, {"kind": "input", "lines": [f"position {f}", "tostr"], "what": "loaded position has inconsistent bookkeeping: " + snapshot_inconsistent(d), "engine": g[:300]})
    if valid:
        ctx.sample({"fen": valid[0], "engine": (go[0] or "")[:120]})
    # unrepresentable positions must be rejected, not accepted and not crash
    for what, f in UNREPRESENTABLE:
        ctx.case("unrep:" + f)
        g = run_batch(HDRV, [f"fen\t{hexs(f)}"])[0]
        if g != "fenerr":
            ctx.violation("fen-unrep:" + f, {"kind": "input", "lines": [f"position {f}"], "what": f"unrepresentable position ({what}) is not rejected: " + ("accepted" if (g or "").startswith("ok") else "crash"), "engine": (g or "")[:200]})
    # positions of the pool whose mover is in check, with the turn flipped: the side not to move is then in check -
    # not a chess position (its king could be captured); must be rejected like the other unrepresentable ones
    sg = run_batch(MDRV, [f"sgen\t{f}" for f in valid])
    flipped = []
    for f, r in zip(valid, sg):
        if kv(r).get("chk") == "1":
            parts = f.split()
            parts[1] = "b" if parts[1] == "w" else "w"
            parts[3] = "-"
            flipped.append(" ".join(parts))
    flipped = flipped[:ctx.size(150, 5000)]
    gf = run_batch(HDRV, [f"fen\t{hexs(f)}" for f in flipped])
    ctx.co["co_fen_opponent_in_check"] = len(flipped)
    for f, g in zip(flipped, gf):
        ctx.case("oppcheck:" + f)
        ctx.bump("opponent_in_check_fens")
        if g != "fenerr":
            ctx.violation("fen-oppcheck:" + f, {"kind": "input", "lines": [f"position {f}", "perft 3"], "what": "FEN in which the side not to move is in check is not rejected: " + ("accepted" if (g or "").startswith("ok") else "crash"), "engine": (g or "")[:200]})
    # malformed stream: near-valid mutations and random bytes; total = error, never a crash; Go vs model class
    muts = []
    alphabet = "pnbrqkPNBRQK12345678/ wb-KQkqabcdefgh0369"
    for _ in range(n):
        base = rng.choice(valid)
        r = rng.random()
        bs = bytearray(base.encode())
        if r < 0.25:
            i = rng.randrange(len(bs))
            bs[i] = ord(rng.choice(alphabet))
        elif r < 0.4:
            i = rng.randrange(len(bs))
            del bs[i]
        elif r < 0.55:
            i = rng.randrange(len(bs))
            bs.insert(i, ord(rng.choice(alphabet)))
        elif r < 0.65:
            bs = bs[: rng.randrange(len(bs))]
        elif r < 0.75:
            parts = base.split(" ")
            j = rng.randrange(len(parts))
            parts[j] = rng.choice(["", "-", "x", "99999999999999999999", "-1", "0", "+5", "w", "KQkq", "e3", "e6", "a9", "i3", parts[j] + parts[j], "1" * rng.randint(1, 30)])
            bs = bytearray(" ".join(parts).encode())
        elif r < 0.8:
            parts = base.split(" ")
            rows = parts[0].split("/")
            j = rng.randrange(8)
            rows[j] = rng.choice(["9", "44", "8" * rng.randint(2, 40), "pppppppp" + "p" * rng.randint(1, 3), rows[j] + "1", "k" * 8, "7", ""])
            parts[0] = "/".join(rows)
            bs = bytearray(" ".join(parts).encode())
        elif r < 0.9:
            bs = bytearray(rng.getrandbits(8) for _ in range(rng.randint(0, 60)))
        else:
            i = rng.randrange(len(bs))
            bs[i] = rng.getrandbits(8)
        muts.append(bytes(bs))
    muts = [m for m in muts if b"\n" not in m and b"\t" not in m]
    mo = [f"fen\t{m.hex()}" for m in muts]
    go2 = run_batch(HDRV, mo)
    model2 = run_batch(MDRV, mo)
    ctx.co["co_fen_malformed"] = len(mo)
    cls = {"ok": 0, "fenerr": 0, "panic": 0}
    for mb, o, g, m in zip(muts, mo, go2, model2):
        ctx.case(o)
        c = "ok" if (g or "").startswith("ok") else ("fenerr" if g == "fenerr" else "panic")
        cls[c] += 1
        if c == "panic":
            ctx.violation("fen-crash:" + mb.hex(), {"kind": "input", "lines": ["position " + mb.decode("latin-1")], "hex": mb.hex(), "what": "FEN loader crashes instead of reporting `invalid FEN`", "engine": (g or "")[:200]})
        elif c == "ok":
            d = kv(g)
            bad = snapshot_inconsistent(d)
            if bad:
                ctx.violation("fen-accept:" + mb.hex(), {"kind": "input", "lines": ["position " + mb.decode("latin-1")], "hex": mb.hex(), "what": "accepted a string whose position the engine cannot represent soundly: " + bad, "engine": (g or "")[:300]})
            elif int(d.get("ply", "0")) < 0:
                ctx.violation("fen-ply:" + mb.hex(), {"kind": "input", "lines": ["position " + mb.decode("latin-1")], "hex": mb.hex(), "what": "accepted a move number beyond the ply counter (negative ply)", "engine": (g or "")[:300]})
        if canon(g) != canon(m):
            co.append((o, mb.decode("latin-1"), g, m))
    for k_, v in cls.items():
        ctx.bump("malformed_" + k_, v)
    # the decision procedure on the same stream, on the systematic byte families and on the fixed lenient forms
    fen_decision_check(ctx, muts, go2)
    fam_strings = fen_byte_families(rng, valid, ctx.quick)
    fam_go = run_batch(HDRV, [f"fen\t{b.hex()}" for b in fam_strings])
    fam_model = run_batch(MDRV, [f"fen\t{b.hex()}" for b in fam_strings])
    ctx.co["co_fen_byte_families"] = len(fam_strings)
    for b, g, m in zip(fam_strings, fam_go, fam_model):
        if not (g or "").startswith("ok") and g != "fenerr":
            ctx.violation("fen-crash:" + b.hex(), {"kind": "input", "lines": ["position " + b.decode("latin-1")], "hex": b.hex(), "what": "FEN loader crashes instead of reporting `invalid FEN`", "engine": (g or "")[:200]})
        if canon(g) != canon(m):
            co.append(("fen\t" + b.hex(), b.decode("latin-1"), g, m))
    fen_decision_check(ctx, fam_strings, fam_go)
    fen_decision_check(ctx, LENIENT_REPRESENTATIVES + [v.encode() for v in valid[:200]])
    # the en passant field against the position: every square of the third and sixth rank, either side to move,
    # (a) with a single pawn of either colour directly in front of or behind the square (complete for that shape),
    # (b) on positions of the pool - accepted exactly when the specification calls the result a legal position
    epv = []
    for side in "wb":
        for fl in "abcdefgh":
            for rk in (3, 6):
                for pawn in "Pp":
                    for prk in (rk - 1, rk + 1):
                        b = [["." for _ in range(8)] for _ in range(8)]
                        b[7][4], b[0][0 if fl != "a" else 7] = "k", "K"
                        b[prk - 1][ord(fl) - 97] = pawn
                        epv.append(f"{gens.board_to_fen(b)} {side} - {fl}{rk} 0 1")
    for f in rng.sample(valid, min(len(valid), ctx.size(150, 3000))):
        parts = f.split(" ")
        for _ in range(4):
            q = list(parts)
            q[1] = rng.choice("wb")
            q[3] = rng.choice("abcdefgh") + rng.choice("36")
            epv.append(" ".join(q))
    ctx.bump("ep_field_variants", len(epv))
    fen_decision_check(ctx, [e.encode() for e in dict.fromkeys(epv)])
    # rejected FEN keeps the current position
    keep_ops = []
    # `position` trims white space and an optional `fen ` keyword before loading: a string the loader rejects only
    # because of surrounding blanks (or because it starts with that keyword) becomes a valid FEN on this path and
    # rightly replaces the position - use rejected strings that stay rejected after that preprocessing
    def still_bad(m):
        t = m.strip()
        if t.startswith(b"fen "):
            t = t[4:].strip()
        return t != m
    rejected = [m for m, g in zip(muts, go2) if g == "fenerr" and not still_bad(m) and b"moves" not in m]
    for _ in range(ctx.size(60, 1500)):
        good = rng.choice(valid)
        bad = rng.choice(rejected or [b"x"])
        keep_ops += [f"uci\tposition {good}", "ucihex\t" + (b"position " + bad).hex()]
    kr = run_batch(HDRV, keep_ops, shards=1)
    ctx.co["co_fen_keep"] = len(keep_ops) // 2
    for j in range(0, len(keep_ops), 2):
        a, b = kr[j], kr[j + 1]
        ctx.case(keep_ops[j + 1])
        sa = re.search(r"snap=\[(.*?)\]", a or "")
        sb = re.search(r"snap=\[(.*?)\]", b or "")
        if not sa or not sb or sa.group(1) != sb.group(1):
            ctx.violation("fen-keep:" + keep_ops[j + 1], {"kind": "history", "lines": [keep_ops[j][4:], "position " + bytes.fromhex(keep_ops[j + 1].split("\t")[1]).decode("latin-1")[9:]], "what": "a rejected FEN changed the current position (or crashed)",
                                                       "before": (a or "")[:200], "after": (b or "")[:200]})
    if co and not ctx.violations:
        o, txt, g, m = co[0]
        ctx.violation("fen-model:" + o, {"kind": "unproved", "correspondence": "co_fen", "op": o, "input": txt, "engine": (g or "")[:300], "model": (m or "")[:300],
                                        "what": "FEN loader and its Lean model differ in outcome; no property-level failing input found"}, found=False)

# --------------------------------------------------------------------------------------------------
# C14 / C16: determinism, query commands

def analysis_of(lines):
    """canonical analysis: per completed depth (score, pv, nodes) + final + bestmove; time/nps/currmove dropped"""
    out = []
    for l in lines:
        if l.startswith("info string") or l.startswith("info currmove"):
            continue
        inf = parse_info(l) if l.startswith("info") else None
        if inf and inf["kind"] == "depth":
            out.append(("depth", inf["depth"], inf["score"], tuple(inf["pv"]), inf["nodes"]))
        elif inf and inf["kind"] == "score":
            # mid-iteration PV lines are gated by wall-clock time (200 ms): keep only the final one
            last_score = ("final", inf["depth"], inf["score"], tuple(inf["pv"]), inf["nodes"])
            out = [x for x in out if x[0] != "final"] + [last_score]
        elif l.startswith("bestmove"):
            out.append(("bestmove", l.split()[1] if len(l.split()) > 1 else ""))
    return out


def probe(s, fen, depth, set_position=True, timeout=120.0):
    if set_position:
        s.send(f"position {fen}")
    s.send(f"go depth {depth}")
    got, st = wait_bestmove(s, timeout)
    return (analysis_of(got) if st == "match" else None), st


def random_history(rng, fens, allow_go=True):
    """command history: other games, finished and stopped searches, perft/eval, option changes"""
    h = []
    for _ in range(rng.randint(1, 6)):
        r = rng.random()
        f = rng.choice(fens)
        if r < 0.35 and allow_go:
            h.append(("position", f"position {f}"))
            h.append(("go_wait", f"go depth {rng.randint(1, 4)}"))
        elif r < 0.5 and allow_go:
            h.append(("position", f"position {f}"))
            h.append(("go_stop", "go infinite", rng.random() * 0.08))
            # a GUI may repeat `stop` (time-out race): one or two more after the search has answered
            for _ in range(rng.choice([0, 1, 1, 2])):
                h.append(("line", "stop"))
        elif r < 0.6:
            h.append(("line", f"position {f}"))
            h.append(("line", f"perft {rng.randint(1, 2)}"))
        elif r < 0.7:
            h.append(("line", f"position {f}"))
            h.append(("line", "eval"))
        elif r < 0.8:
            h.append(("line", f"setoption name currmoveLogInterval value {rng.choice([10, 100, 1000, 1000000, 10000000])}"))
        elif r < 0.9:
            h.append(("line", "isready"))
        else:
            h.append(("line", rng.choice(["uci", "tostr", "help", "ucinewgame", "tperft 2", "stop", "stop"])))
    return h


def play_history(s, h):
    for item in h:
        if item[0] in ("line", "position"):
            s.send(item[1])
        elif item[0] == "go_wait":
            s.send(item[1])
            got, st = wait_bestmove(s, 120.0)
            if st != "match":
                return False
        elif item[0] == "go_stop":
            s.send(item[1])
            time.sleep(item[2])
            s.send("stop")
            got, st = wait_bestmove(s, 30.0)
            if st != "match":
                return False
    s.send("isready")
    got, st = s.read_until(lambda l: l == "readyok", 10.0)
    s.drain(0.02)
    return st == "match"


def history_lines(h):
    out = []
    for item in h:
        out.append(item[1])
        if item[0] == "go_wait":
            out.append("<wait for bestmove>")
        if item[0] == "go_stop":
            out += [f"<sleep {item[2]:.3f}s>", "stop", "<wait for bestmove>"]
    return out


def check_C14(ctx):
    n = ctx.size(36, 1200)
    pool = small_pool(ctx, n, max_men=32)
    # histories revisit the same plies with overlapping quiet moves: use neighbours of the probe position
    items = []
    for f, cnt in pool:
        d = ctx.rng.choice([2, 3, 3, 4]) if sum(1 for c in f.split()[0] if c.isalpha()) <= 16 else ctx.rng.choice([2, 3])
        others = [x for x, _ in ctx.rng.sample(pool, min(4, len(pool)))] + [f, START_FEN]
        items.append((f, d, random_history(ctx.rng, others)))

    def one(item):
        f, d, h = item
        s1 = Session()
        try:
            fresh, st1 = probe(s1, f, d)
        finally:
            s1.kill()
        s2 = Session()
        try:
            ok = play_history(s2, h)
            if not ok:
                return fresh, None, "history failed: " + (crash_line(s2) or "")
            after, st2 = probe(s2, f, d)
            # same probe again with another logging interval
            s2.send(f"setoption name currmoveLogInterval value {10 if d > 1 else 1000}")
            again, st3 = probe(s2, f, d)
            return fresh, after, again
        finally:
            s2.kill()
    res = parallel_map(one, items, workers=8)
    ctx.co["co_session"] = len(items)
    for (f, d, h), r in zip(items, res):
        ctx.case(f"{f}|{d}|{len(h)}")
        for kind in set(x[0] for x in h):
            ctx.bump("hist:" + kind)
        if not isinstance(r, tuple):
            raise RuntimeError(str(r))
        fresh, after, again = r
        lines = history_lines(h) + [f"position {f}", f"go depth {d}"]
        if fresh is None:
            continue   # probe itself fails on a fresh engine: C03/C17 territory
        if after is None:
            ctx.violation(f"session-fail:{f}:{d}", {"kind": "history", "lines": lines, "what": "engine failed during the history or the probe: " + str(again)})
            continue
        if after != fresh:
            ctx.violation(f"session:{f}:{d}:{hashlib.sha256(json.dumps(history_lines(h)).encode()).hexdigest()[:8]}", {"kind": "history", "lines": lines, "what": "analysis after a command history differs from the analysis in a fresh engine",
                                                                    "fresh": fresh[-3:], "after_history": after[-3:]})
        elif isinstance(again, list) and again != fresh:
            ctx.violation(f"session-option:{f}:{d}", {"kind": "history", "lines": lines + ["setoption name currmoveLogInterval value 10", f"position {f}", f"go depth {d}"],
                                                     "what": "analysis depends on the currmoveLogInterval option or on the previous identical search", "fresh": fresh[-3:], "again": again[-3:]})
        if len(ctx.samples) < 3:
            ctx.sample({"probe": [f, d], "history": history_lines(h)[:8], "analysis_tail": fresh[-2:]})
    follow_game_check(ctx, pool[:max(12, len(pool) // 2)])


def follow_game_check(ctx, pool):
    """the game follows the line the engine predicted (what a GUI does move after move): search Q, then probe
    P = Q + the first one or two moves of that search's principal variation, reached through `position Q moves ...`
    in the same process, against the same probe in a fresh process"""
    items = []
    for j, (f, cnt) in enumerate(pool):
        if j % 2:
            # every second game is played at a move number near a multiple of 350 plies, where per-ply tables that
            # are indexed modulo their size wrap around
            parts = f.split()
            parts[5] = str(ctx.rng.choice([150, 160, 170, 173, 174, 175, 176, 177, 348, 349, 350, 351, 525, 526, 9990]))
            f = " ".join(parts)
        nmen = sum(1 for c in f.split()[0] if c.isalpha())
        d1 = ctx.rng.choice([2, 3, 4]) if nmen <= 16 else ctx.rng.choice([2, 3])
        items.append((f, d1, ctx.rng.choice([2, 3]) if nmen > 16 else ctx.rng.choice([2, 3, 4]), ctx.rng.choice([1, 1, 2]), ctx.rng.random() < 0.3))

    def one(item):
        f, d1, d, k, stopped = item
        s = Session()
        try:
            s.send(f"position {f}")
            if stopped:
                s.send("go infinite")
                time.sleep(0.05)
                s.send("stop")
            else:
                s.send(f"go depth {d1}")
            got, st = wait_bestmove(s, 120.0)
            if st != "match":
                return None
            an = analysis_of(got)
            pv = next((list(x[3]) for x in reversed(an) if x[0] in ("final", "depth")), [])
            if len(pv) < 1:
                return None
            mv = pv[:min(k, len(pv))]
            cmd = f"{f} moves {' '.join(mv)}"
            after, st2 = probe(s, cmd, d)
        finally:
            s.kill()
        if after is None:
            return ("skip", cmd)        # e.g. the line ends the game: C03/C17 territory
        s1 = Session()
        try:
            fresh, st1 = probe(s1, cmd, d)
        finally:
            s1.kill()
        return (cmd, fresh, after)
    res = parallel_map(one, items, workers=8)
    ctx.co["co_session_follow_pv"] = len(items)
    for (f, d1, d, k, stopped), r in zip(items, res):
        if r is None or r[0] == "skip":
            ctx.bump("follow_skipped")
            continue
        cmd, fresh, after = r
        ctx.case(f"follow|{cmd}|{d1}|{d}")
        ctx.bump("hist:follow_pv_stopped" if stopped else "hist:follow_pv")
        if fresh is not None and after != fresh:
            first = f"go infinite + stop" if stopped else f"go depth {d1}"
            ctx.violation(f"session-follow:{cmd}:{d}", {"kind": "history", "lines": [f"position {f}", first, "<wait for bestmove>", f"position {cmd}", f"go depth {d}"],
                                                       "what": "analysis of the position reached by following the previous search's principal variation differs from the analysis in a fresh engine",
                                                       "fresh": fresh[-3:], "after_history": after[-3:]})


def stopped_search_position_check(ctx, n):
    """C02, last sentence (un-making moves during search restores the position bit for bit), on the path the perft
    tables never take: a search ENDED BY `stop` deep inside the tree must have taken back every move it made -
    position dump and legal moves before and after are compared"""
    pool = small_pool(ctx, n, max_men=28)
    items = [(f, 0.25 + ctx.rng.random() * 0.9) for f, _ in pool] + [(KIWI_FEN, 1.0), (START_FEN + " moves e2e4 e7e5 g1f3 b8c6", 1.2)]

    def one(item):
        f, delay = item
        s = Session()
        try:
            s.send(f"position {f}")
            before, st0 = snapshot_text(s)
            s.send("go infinite")
            time.sleep(delay)
            s.send("stop")
            got, st = wait_bestmove(s, 20.0)
            if st != "match":
                return ("nobest", crash_line(s) or st)
            after, st1 = snapshot_text(s)
            return ("ok", before, after)
        finally:
            s.kill()
    res = parallel_map(one, items, workers=8)
    ctx.co["co_unmake_after_stop"] = len(items)
    for (f, delay), r in zip(items, res):
        ctx.case(f"stopkeep|{f}|{delay:.2f}")
        ctx.bump("stopped_search_unmake")
        lines = [f"position {f}", "tostr", "perft 1", "go infinite", f"<sleep {delay:.2f}s>", "stop", "<wait for bestmove>", "tostr", "perft 1"]
        if r is None or r[0] != "ok":
            continue      # no bestmove at all: C03/C12's subject
        if r[1] != r[2]:
            ctx.violation(f"unmake-stop:{f}", {"kind": "history", "lines": lines, "what": "a search ended by `stop` did not take back all its moves: the engine's position (dump / legal moves) differs from the one before the search",
                                                "before": r[1][-6:], "after": r[2][-6:]})


def snapshot_text(s):
    s.send("isready")
    s.read_until(lambda l: l == "readyok", 20.0)
    s.drain(0.02)
    s.send("tostr")
    s.send("perft 1")
    got, st = s.read_until(lambda l: l.startswith("total:"), 10.0)
    return [l for l in got if not l.startswith("info")], st


TERMINAL_FENS = [
    "7k/5Q2/6K1/8/8/8/8/8 b - - 0 1", "7k/6Q1/6K1/8/8/8/8/8 b - - 0 1", "k7/8/1K6/8/8/8/8/7R w - - 0 1", "5k2/5P2/5K2/8/8/8/8/8 b - - 0 1",
    "8/8/8/8/8/5k2/5p2/5K2 w - - 0 1", "K7/P1k5/8/8/8/8/8/8 w - - 0 1", "7K/5k1P/8/8/8/8/8/8 w - - 0 1", "rnb1kbnr/pppp1ppp/8/4p3/6Pq/5P2/PPPPP2P/RNBQKBNR w KQkq - 1 3",
    "R5k1/5ppp/8/8/8/8/8/6K1 b - - 0 1", "8/8/8/8/8/1k6/1q6/K7 w - - 0 1".replace("1q6/K7", "2q5/K7"),
]


STATE_EDGE_FENS = [
    "4k3/8/4p3/3pP3/8/6q1/8/7K w - d6 0 2",          # the en passant capture is the only legal move (else stalemate)
    "7k/8/4p3/3pP3/4K3/r7/4n3/8 w - d6 0 2",         # in check, the en passant capture is the only answer
    "rnbqkbnr/ppp1pppp/8/8/3pP3/8/PPPP1PPP/RNBQKBNR b KQkq e3 0 3",   # en passant among other moves
    "r3k2r/p1ppqpb1/bn2pnp1/3PN3/1p2P3/2N2Q1p/PPPBBPPP/R3K2R w KQkq - 0 1",
    "8/P6k/8/8/8/8/7p/K7 w - - 0 1",                 # promotions pending on both sides
    "7k/8/8/8/2b5/8/PP6/K5r1 w - - 0 1",             # in check, single reply
    "k7/P7/K7/8/8/8/7p/8 b - - 0 1",                 # king stalemated, only pawn moves (promotions)
    "r3k3/8/8/8/8/8/8/4K2R w Kq - 0 1",              # partial castling rights
    "8/8/8/8/1pP5/8/k1K5/8 b - c3 0 1",              # en passant with few other moves
]


def check_C16(ctx):
    n = ctx.size(30, 1000)
    pool = small_pool(ctx, n, max_men=32)
    # positions without legal moves are legal positions too (stalemate / checkmate game positions)
    term = gens.legal_filter(TERMINAL_FENS + [gens.mirror_fen(f) for f in TERMINAL_FENS])
    pool = pool + [(f, 0) for f in term]

    def one(item):
        f, d, queries = item
        s0 = Session()
        try:
            # reference without any query (not even `tostr`): the order of the generated moves and the analysis
            s0.send(f"position {f}")
            s0.send("perft 1")
            fresh_perft, _ = s0.read_until(lambda l: l.startswith("total:"), 10.0)
            fresh_perft = [l for l in fresh_perft if re.match(r"^[a-h][1-8][a-h][1-8][nbrq]?: \d+$|^total:", l)]
            fresh, _ = probe(s0, f, d)
        finally:
            s0.kill()
        s = Session()
        try:
            s.send(f"position {f}")
            before, st = snapshot_text(s)
            if st != "match":
                return None
            for q in queries:
                if q[0] == "line":
                    s.send(q[1])
                elif q[0] == "go_wait":
                    s.send(q[1])
                    g, st = wait_bestmove(s, 120.0)
                    if st != "match":
                        return ("fail", q[1], crash_line(s))
                elif q[0] == "go_stop":
                    s.send(q[1])
                    time.sleep(q[2])
                    s.send("stop")
                    g, st = wait_bestmove(s, 30.0)
                    if st != "match":
                        return ("fail", q[1] + " + stop", crash_line(s))
            s.send("isready")
            s.read_until(lambda l: l == "readyok", 20.0)
            s.drain(0.02)
            after, st = snapshot_text(s)
            # the generation ORDER must be the fresh process's too (piece lists untouched, not merely the same set)
            after_perft = [l for l in after if re.match(r"^[a-h][1-8][a-h][1-8][nbrq]?: \d+$|^total:", l)]
            if fresh_perft and after_perft != fresh_perft:
                after = after + ["<move order of perft 1 differs from a fresh process: " + " ".join(l.split(":")[0] for l in after_perft[:8]) + " ... vs " + " ".join(l.split(":")[0] for l in fresh_perft[:8]) + " ...>"]
            probe_after, _ = probe(s, f, d, set_position=False)
            return before, after, fresh, probe_after
        finally:
            s.kill()
    items = []
    for f, cnt in pool:
        qs = []
        for _ in range(ctx.rng.randint(1, 6)):
            r = ctx.rng.random()
            if r < 0.3:
                qs.append(("go_wait", f"go depth {ctx.rng.randint(1, 3)}"))
            elif r < 0.5:
                qs.append(("go_stop", "go infinite", ctx.rng.random() * 0.1))
            elif r < 0.6:
                qs.append(("go_wait", f"go movetime {ctx.rng.choice([1, 60, 100])}"))
            elif r < 0.7:
                qs.append(("line", f"perft {ctx.rng.randint(1, 3)}"))
            elif r < 0.78:
                qs.append(("line", f"tperft {ctx.rng.randint(1, 3)}"))
            elif r < 0.86:
                qs.append(("line", "eval"))
            elif r < 0.9:
                qs.append(("line", "tostr"))
            elif r < 0.95:
                qs.append(("line", "isready"))
            else:
                qs.append(("line", f"setoption name currmoveLogInterval value {ctx.rng.choice([10, 5000, 10000000])}"))
        if cnt == 0:
            qs.insert(ctx.rng.randint(0, len(qs)), ("line", "eval"))
        d = 3 if sum(1 for c in f.split()[0] if c.isalpha()) <= 16 else 2
        items.append((f, d, qs))
    # positions whose state is easy to damage (en passant as the only move, single replies, pending promotions,
    # partial castling rights, no legal move) x EVERY kind of query on its own: nothing is left to the dice
    edge = gens.legal_filter(list(dict.fromkeys(STATE_EDGE_FENS + [gens.mirror_fen(f) for f in STATE_EDGE_FENS]))) + term
    singles = [[("line", "eval")], [("line", "perft 2")], [("line", "tperft 2")], [("line", "tostr")], [("go_wait", "go depth 2")],
               [("go_stop", "go infinite", 0.05)], [("go_wait", "go movetime 40")], [("line", "eval"), ("line", "eval")]]
    for f in edge:
        for q in (singles if not ctx.quick else ctx.rng.sample(singles[1:], 3) + [singles[0]]):
            items.append((f, 2, list(q)))
    ctx.bump("edge_state_sessions", len(edge))
    # positions REACHED THROUGH A MOVE LIST (piece lists in game order, not in FEN order; stack slot > 0 never - but the
    # lists carry history) x every kind of query on its own
    gpl = gens.playouts(ctx.rng, [START_FEN] * 3 + [KIWI_FEN], ctx.size(6, 40), 40)
    for gfen, steps in gpl:
        mvs = [m for m, _ in steps]
        if len(mvs) < 8:
            continue
        k = ctx.rng.randint(8, len(mvs))
        left = steps[k - 1][1]
        if sum(1 for c in left.split()[0] if c.isalpha()) > 28 and ctx.quick and ctx.rng.random() < 0.3:
            continue
        fm = ("startpos" if gfen == START_FEN else gfen) + " moves " + " ".join(mvs[:k])
        for q in (singles if not ctx.quick else ctx.rng.sample(singles[1:], 2) + [singles[3]]):
            items.append((fm, 2, list(q)))
        ctx.bump("move_list_sessions")
    res = parallel_map(one, items, workers=8)
    ctx.co["co_query"] = len(items)
    for (f, d, qs), r in zip(items, res):
        ctx.case(f + "|" + "|".join(q[1] for q in qs))
        for q in qs:
            ctx.bump("query:" + q[1].split()[0] + ("_stop" if q[0] == "go_stop" else ""))
        lines = [f"position {f}"] + history_lines(qs)
        if r is None:
            continue
        if r[0] == "fail":
            ctx.violation(f"query-fail:{f}:{r[1]}", {"kind": "history", "lines": lines, "what": f"query {r[1]} failed: {r[2]}"})
            continue
        before, after, fresh, probe_after = r
        if before != after:
            ctx.violation(f"query-pos:{f}:{'|'.join(q[1] for q in qs)}", {"kind": "history", "lines": lines + ["tostr", "perft 1"], "what": "query commands changed the game position (tostr / perft 1 differ)",
                                                                       "before": before[-6:], "after": after[-6:]})
        elif fresh is not None and probe_after != fresh:
            ctx.violation(f"query-search:{f}:{'|'.join(q[1] for q in qs)}", {"kind": "history", "lines": lines + [f"go depth {d}"], "what": "a search after the query sequence differs from the search right after `position`",
                                                                          "fresh": (fresh or [])[-3:], "after": (probe_after or [])[-3:]})
        if len(ctx.samples) < 3:
            ctx.sample({"position": f, "queries": history_lines(qs)})


# --------------------------------------------------------------------------------------------------
# C17: robustness of the command loop

def gen_line(rng, fens, searching=False):
    """grammar-directed UCI line with boundary / malformed arguments"""
    nums = ["0", "1", "-1", "2", "40", "41", "100", "250", "1000000", "-1000000", "99999999999999999999", "9223372036854775807", "-9223372036854775808", "", "x", "1.5", "+3", "0x10", " 3", "3 "]
    if searching:
        # while a search runs only stop / isready / setoption / quit / unrecognised text may be sent - but setoption
        # with ANY value, in particular values outside the declared range (the search reads the option on every node)
        return rng.choice(["isready", "setoption name currmoveLogInterval value " + rng.choice(["10", "1000", "10000000", "50", "0", "-1", "1", "9", "10000001", "99999999999999999999", "x", ""]),
                           "setoption name currmoveLogInterval value 0", "xyzzy", "", "  ", "setoption", "setoption name x value 1", "isready ", "help?"])
    r = rng.random()
    if r < 0.12:
        return rng.choice(["uci", "isready", "ucinewgame", "help", "tostr", "eval", "stop", "", " ", "quitx", "perft", "tperft", "go x", "position", "position  ", "setoption"])
    if r < 0.3:
        f = rng.choice(fens)
        return rng.choice([f"position {f}", f"position fen {f}", "position startpos", f"position {f} moves", "position startpos moves", "position startpos moves e2e4 e7e5",
                           "position garbage", "position garbage moves e2e4", f"position {f[:rng.randint(0, len(f))]}", "position fen", "position startposx", "position startpos moves e2e4 zz", "position startpos moves e2"])
    if r < 0.4:
        return "perft " + rng.choice(["1", "2", "0", "-1", "x", "", "3", "200", "250", "99999999999999999999"])
    if r < 0.48:
        return "tperft " + rng.choice(["1", "2", "0", "-1", "x", "", "3", "200", "250"])
    if r < 0.6:
        return "setoption " + rng.choice(["name currmoveLogInterval value " + rng.choice(nums), "name currmoveLogInterval", "name", "value 3", "name x value y", "name currmoveLogInterval value 0",
                                          "name currmoveLogInterval value -5", "name currmoveLogInterval value 1", "name currmoveLogInterval value 10", "name  currmoveLogInterval  value  10"])
    if r < 0.66:
        bs = bytes(rng.getrandbits(8) for _ in range(rng.randint(1, 30))).replace(b"\n", b" ").replace(b"\r", b" ")
        return bs
    # go commands
    kws = ["wtime", "btime", "winc", "binc", "movestogo", "depth", "movetime", "infinite", "ponder", "nodes", "searchmoves"]
    toks = []
    for kw in rng.sample(kws, rng.randint(0, 4)):
        toks.append(kw)
        if kw != "infinite" and rng.random() < 0.85:
            toks.append(rng.choice(nums) if rng.random() < 0.5 else rng.choice(["1", "2", "3", "100", "1000", "0"]))
    return "go " + " ".join(toks) if toks or rng.random() < 0.5 else "go"


def run_script(script):
    """feeds a script, handling searches the way a GUI does; returns (ok, reason, transcript)"""
    s = Session(env={"VERIF_DEADLINE": "1"})
    sent = []
    try:
        for line, during in script:
            sent.append(line if isinstance(line, str) else line.decode("latin-1"))
            if not s.send(line):
                return False, "engine died: " + crash_line(s), sent
            is_go = (line.startswith("go") if isinstance(line, str) else line.startswith(b"go"))
            if line in ("isready", b"isready"):
                # answered by exactly one `readyok`: consume it now, so that the synchronisation of a later `go`
                # cannot be satisfied by this stale answer
                g0, st0 = s.read_until(lambda l: l == "readyok", 10.0)
                if st0 != "match":
                    time.sleep(0.1)
                    return False, "`isready` was not answered: " + (crash_line(s) or st0), sent
            if is_go:
                s.send("isready")
                got, st = s.read_until(lambda l: l == "readyok", 6.0)
                if st != "match":
                    time.sleep(0.1)
                    return False, f"no readyok after `{sent[-1]}`: " + (crash_line(s) or st), sent
                started = any(l.startswith("info string vdeadline") for l in got)
                finished = any(l.startswith("bestmove") for l in got)
                if started and not finished:
                    for d in during:
                        sent.append(d)
                        s.send(d)
                    s.send("stop")
                    sent.append("stop")
                    g2, st2 = wait_bestmove(s, 15.0)
                    # every exact `isready` sent during the search is answered by one `readyok`, which may arrive
                    # after the bestmove: consume them, or the next `go` would be synchronised on a stale one and
                    # the script would start a second search while this one is still running (the script's fault)
                    owed = sum(1 for d in during if d == "isready") - sum(1 for l in g2 if l == "readyok")
                    while st2 == "match" and owed > 0:
                        g3, st3 = s.read_until(lambda l: l == "readyok", 5.0)
                        if st3 != "match":
                            time.sleep(0.1)
                            return False, "an `isready` sent during a search was never answered: " + (crash_line(s) or st3), sent
                        owed -= 1
                    if st2 != "match":
                        time.sleep(0.1)
                        return False, f"search started by `{line}` never ended after stop: " + (crash_line(s) or st2), sent + ["--- engine output tail ---"] + [x for x in s.lines if not x.startswith("info currmove")][-25:]
        s.send("isready")
        got, st = s.read_until(lambda l: l == "readyok", 20.0)
        if st != "match":
            time.sleep(0.1)
            return False, "no readyok at the end of the script: " + (crash_line(s) or st), sent
        return True, "", sent
    finally:
        s.kill()


FIXED_SCRIPTS = [
    ["eval"], ["tostr"], ["go depth"], ["position startpos", "go depth"], ["position startpos", "go wtime"], ["position startpos", "go movestogo 0 wtime 1000"],
    ["position startpos", "setoption name currmoveLogInterval value 0", "go depth 2"], ["position garbage moves e2e4"], ["position startpos", "position garbage moves e2e4"],
    ["position 7k/5Q2/6K1/8/8/8/8/8 b - - 0 1", "go depth 2"], ["position 7k/6Q1/6K1/8/8/8/8/8 b - - 0 1", "go depth 2"], ["position 7k/6Q1/6K1/8/8/8/8/8 b - - 0 1", "go movetime 10"],
    ["position startpos", "perft 250"], ["position startpos", "tperft 250"], ["position 4k3/8/8/8/8/8/8/4K3 w - - 0 1", "perft 205"], ["position startpos", "perft 200"],
    ["position startpos", "setoption name currmoveLogInterval value -7", "go depth 2"], ["position startpos", "setoption name currmoveLogInterval value 1", "go depth 2"],
    ["go"], ["go infinite"], ["stop"], ["position startpos", "go depth 0"], ["position startpos", "go depth -1"], ["position startpos", "go movetime x"], ["position startpos", "go movetime"],
    ["position startpos", "go depth 1 depth"], ["position startpos", "go infinite depth"], ["position startpos", "go winc"], ["position startpos", "go binc"], ["position startpos", "go btime"],
    ["position startpos", "go movestogo"], ["position startpos", "go movestogo -3 wtime 1000 btime 1000"], ["position startpos", "go depth 99999999999999999999"],
    ["position startpos", "go wtime 9223372036854775807 btime 9223372036854775807"], ["position startpos", "go movetime 9223372036854775807"], ["position startpos", "go movetime -9223372036854775808"],
    ["perft 1"], ["tperft 1"], ["position startpos moves e2e4 e7e5 g1f3", "go depth 2"], ["isready", "stop", "isready"],
    ["position startpos", "go depth 2", "<wait>", "stop"],
]


def check_C17(ctx):
    rng = ctx.rng
    pool = [f for f, _ in small_pool(ctx, 40, max_men=32)] + ["7k/5Q2/6K1/8/8/8/8/8 b - - 0 1", "7k/6Q1/6K1/8/8/8/8/8 b - - 0 1"]
    # (a) synchronous lines in-process (fast, many): everything that does not start a search
    n_sync = ctx.size(4000, 200000)
    ops, raw = [], []
    for _ in range(n_sync):
        l = gen_line(rng, pool)
        lb = l if isinstance(l, bytes) else l.encode("utf-8")
        if lb.startswith(b"go") or lb == b"quit" or b"\t" in lb or b"\n" in lb:
            continue
        ops.append("ucihex\t" + lb.hex())
        raw.append(lb)
    res = run_batch(HDRV, ops, shards=min(8, infra.NCPU), timeout_per_op=60.0)
    ctx.co["co_uci_sync"] = len(ops)
    for lb, o, r in zip(raw, ops, res):
        ctx.case(o)
        w0 = lb.split(b" ")[0].decode("latin-1")[:10] if lb.strip() else "blank"
        ctx.bump("sync:" + (w0 if re.fullmatch(r"[a-z]{1,10}", w0) else "other_bytes"))
        if canon(r) == "panic":
            # replay alone in a fresh process to make sure it is the line, with its own minimal context
            ctxlines = minimal_context(lb)
            ctx.violation("uci-crash:" + lb.hex(), {"kind": "history", "lines": ctxlines, "hex": lb.hex(), "what": "input line crashes the engine: " + (r or "")[:160]})
    # (b) fixed boundary scripts and random sessions with searches, against the real binary
    scripts = [[(l, []) for l in sc if l != "<wait>"] for sc in FIXED_SCRIPTS]
    # a FEN the engine cannot represent followed by the commands that would use it (statement: "a rejected FEN
    # followed by a move list", "searching ..."): rejected or not, nothing may crash
    unrep = [f for _, f in UNREPRESENTABLE]
    for f in (rng.sample(unrep, 12) if ctx.quick else unrep):
        for follow in (["go depth 4"], ["perft 2"], ["tperft 3"], ["eval", "go movetime 100"]):
            scripts.append([(f"position fen {f}", [])] + [(l, []) for l in follow])
    for f, mv in [("7k/P7/8/8/8/8/NNNNNNNN/RNBQKBNR w KQ - 0 1", "a7a8q"), ("rnbqkbnr/nnnnnnnn/8/8/8/8/p7/7K b kq - 0 1", "a2a1q"),
                  ("7k/PPP5/8/8/8/8/2NNNNNN/RNBQKBNR w KQ - 0 1", "a7a8q h8h7 b7b8q h7h6 c7c8q")]:
        scripts.append([(f"position fen {f} moves {mv}", []), ("go depth 2", [])])
    # very long input lines (the statement quantifies over arbitrary lines; a long game is one `position` line of
    # five bytes per ply): unknown text, a legal 14 000-ply game, a rejected FEN with a long tail
    shuffle = " ".join(["g1f3 g8f6 f3g1 f6g8"] * 3500)
    scripts.append([("x" * 70000, []), ("isready", [])])
    scripts.append([("position startpos moves " + shuffle, []), ("go depth 2", []), ("isready", [])])
    scripts.append([("position startpos", []), ("go depth 2 " + "depth 2 " * 20000, []), ("isready", [])])
    scripts.append([("position fen " + "8/" * 40000, []), ("isready", [])])
    wrap = " ".join(["g1f3 g8f6 f3g1 f6g8"] * 3200)
    scripts.append([("position fen rnbqkbnr/pppppppp/8/8/8/8/PPPPPPPP/RNBQKBNR w KQkq - 0 9999 moves " + wrap, []), ("go depth 2", []), ("perft 2", []), ("tperft 2", []), ("eval", []), ("isready", [])])
    if not ctx.quick:
        scripts.append([("setoption name " + "y" * 3000000, []), ("isready", [])])
    # positions at the edge of the capacities that ARE representable: fourteen officers and a pawn about to promote
    for f in ("7k/P7/8/8/8/8/1NNNNNNN/RNBQKBNR w KQ - 0 1", "rnbqkbnr/1nnnnnnn/8/8/8/8/p7/7K b kq - 0 1"):
        scripts.append([(f"position fen {f}", []), ("go depth 3", []), ("perft 2", [])])
    # option changes arriving while a search is running (legal at any time per UCI), incl. out-of-range values
    for v in ("0", "-7", "1", "10000001", "x", "10"):
        scripts.append([("position startpos", []), ("go infinite", [f"setoption name currmoveLogInterval value {v}", "isready"])])
        scripts.append([(f"position {KIWI_FEN}", []), ("go depth 40", ["isready", f"setoption name currmoveLogInterval value {v}"]), ("go depth 2", [])])
    n_sess = ctx.size(60, 3000)
    for _ in range(n_sess):
        sc = []
        for _k in range(rng.randint(2, 12)):
            l = gen_line(rng, pool)
            if (l if isinstance(l, bytes) else l.encode()).strip() in (b"quit",):
                continue
            during = [gen_line(rng, pool, searching=True) for _ in range(rng.randint(0, 3))]
            sc.append((l, during))
        scripts.append(sc)
    results = parallel_map(run_script, scripts, workers=8)
    ctx.co["co_uci_sessions"] = len(scripts)
    for sc, r in zip(scripts, results):
        if not isinstance(r, tuple) or len(r) != 3:
            raise RuntimeError(str(r))
        ok, why, sent = r
        ctx.case("script:" + "|".join(sent)[:400])
        ctx.bump("session_lines", len(sent))
        if not ok:
            small = shrink_script(sc) if len(ctx.violations) < 3 else sc
            key = "uci-session:" + "|".join((l if isinstance(l, str) else l.hex()) for l, _ in small)
            flat = []
            for l, during in small:
                flat.append(l if isinstance(l, str) else "hex:" + l.hex())
                flat += ["<while that search runs> " + (d if isinstance(d, str) else "hex:" + d.hex()) for d in during]
            ctx.violation(key, {"kind": "history", "lines": flat, "what": why,
                                "transcript_of_the_original_session": [str(x)[:200] for x in sent][-60:]})
        if len(ctx.samples) < 3:
            ctx.sample({"script": sent[:10], "ok": ok})


def uci_model_correspondence(ctx):
    """co_uci_model: the Lean model of the command interpreter (Model.uciStep, the subject of the C17 theorems)
    against engine/uci.go, line by line over whole sessions of arbitrary byte lines (tools/uci_diff.py)"""
    n = ctx.size(600, 12000)
    out = os.path.join(BUILD, f"uci_diff_{ctx.seed}.json")
    if os.path.exists(out):
        os.remove(out)
    rc, txt = infra.sh([sys.executable, os.path.join(VERIF, "tools", "uci_diff.py"), "--sessions", str(n), "--seed", str(ctx.seed * 7919 + 17),
                        "--workers", str(min(12, infra.NCPU)), "--json", out], timeout=3600)
    if not os.path.exists(out):
        ctx.violation("uci-model-run", {"kind": "unproved", "what": "co_uci_model did not run", "detail": txt[-2000:]}, found=False)
        return
    r = json.load(open(out))
    compared = r["stats"].get("lines compared with the real code", 0)
    ctx.co["co_uci_model"] = compared
    ctx.evaluations += compared
    for k, v in r["categories"].items():
        ctx.bump("model_line:" + k, v)
    for k, v in r["classes"].items():
        ctx.bump("model_outcome:" + k, v)
    for pnc in r["real_panics_inside_pre"][:3]:
        lines = [bytes.fromhex(x).decode("latin-1") for x in pnc["prefix"]] + [bytes.fromhex(pnc["line"]).decode("latin-1")]
        ctx.violation("uci-crash:" + pnc["line"], {"kind": "history", "lines": lines, "what": "input line within the UCI precondition crashes the engine: " + pnc["panic"]})
    for m in r["mismatches"][:3]:
        lines = [bytes.fromhex(x).decode("latin-1") for x in m["lines"]]
        ctx.violation("uci-model:" + (m["lines"][-1] if m["lines"] else m["what"]), {"kind": "history", "lines": lines, "what": "command interpreter: engine and Lean model (Model.uciStep) disagree: " + m["what"],
                                                             "model": m["model"], "engine": m["real"]}, found=False)


def minimal_context(lb):
    """the crashing line needs the driver's accumulated state; find a small prefix: nothing, or a position"""
    for prefix in ([], ["position startpos"]):
        ops = [f"ucihex\t{p.encode().hex()}" for p in prefix] + ["ucihex\t" + lb.hex()]
        r = run_batch(HDRV, ops, shards=1)
        if canon(r[-1]) == "panic":
            return prefix + [lb.decode("latin-1")]
    return ["<some earlier state>", lb.decode("latin-1")]


def shrink_script(sc):
    cur = list(sc)
    changed = True
    t_end = time.time() + 90
    while changed and len(cur) > 1 and time.time() < t_end:
        changed = False
        for i in range(len(cur)):
            cand = cur[:i] + cur[i + 1:]
            ok, why, sent = run_script(cand)
            if not ok:
                cur = cand
                changed = True
                break
    return cur


# --------------------------------------------------------------------------------------------------
# C18: capacities

# blocked positions: both kings confined to their back rank behind pawn walls (two legal moves per side)
FORTRESS = [
    "1k6/p1p1p1p1/P1P1P1P1/8/8/p1p1p1p1/P1P1P1P1/1K6 w - - 0 1",
    "1k6/p1p1p1p1/P1P1P1P1/8/8/p1p1p1p1/P1P1P1P1/1K6 b - - 0 90",
    "6k1/1p1p1p1p/1P1P1P1P/8/8/1p1p1p1p/1P1P1P1P/6K1 w - - 0 1",
    "k7/p1p1p1p1/P1P1P1P1/8/8/p1p1p1p1/P1P1P1P1/7K b - - 0 9000",
    # narrower still: all pawns blocked, bishops walled in, kings shuffle between two squares, one spare tempo each -
    # iterative deepening runs through dozens of iterations per second here
    "k1b5/1p1p4/1P1P4/8/7p/1p1p4/1P1P3P/K1B5 w - - 0 1",
    "k1b5/1p1p4/1P1P4/8/7p/1p1p4/1P1P3P/K1B5 b - - 0 1",
    # fortresses with captures still available at the horizon: the deepest iterations end in quiescence capture
    # sequences, so the position stack is used beyond the nominal depth
    "5b1k/4p1p1/1p2P1P1/3P4/8/1p1p4/1P1P4/K1B5 b - - 0 1",
    "5b1k/p3p1p1/4P1P1/4P3/8/1p1p4/1P1P4/K1B5 b - - 0 1",
    "5b1k/4p1p1/4P1P1/8/3p3P/1p1p4/1P1P4/K1B5 w - - 0 1",
]


def run_capacity(item):
    name, lines, wait = item
    s = Session()
    try:
        for l in lines[:-1]:
            s.send(l)
        s.send(lines[-1])
        last = lines[-1]
        if last.startswith("go"):
            if "infinite" in last:
                got, st = wait_bestmove(s, wait)
                if st == "timeout":
                    s.send("stop")
                    got2, st = wait_bestmove(s, 20.0)
                    got += got2
            else:
                got, st = wait_bestmove(s, wait + 30.0)
            bm = [l for l in got if l.startswith("bestmove")]
            crash = crash_line(s) if st != "match" else ""
            return name, st, (bm[-1].split()[1] if bm and len(bm[-1].split()) > 1 else None), crash, s.alive()
        else:
            s.send("isready")
            got, st = s.read_until(lambda l: l == "readyok", wait)
            return name, st, None, crash_line(s) if st != "match" else "", s.alive()
    finally:
        s.kill()


def check_C18(ctx):
    rng = ctx.rng
    items = []
    maxd = int(ctx.prep["facts"]["consts"]["MaxSearchDepth"]["value"])
    for full in [1, 175, 176, 177, 500, 5000, 9999]:
        for side in "wb":
            fen = f"r3k2r/pppq1ppp/2n2n2/3pp3/3PP3/2N2N2/PPPQ1PPP/R3K2R {side} KQkq - 0 {full}"
            items.append((f"movenumber {full}{side}", [f"position {fen}", "go depth 2"], 30.0, fen, None))
            items.append((f"movenumber {full}{side} perft", [f"position {fen}", "perft 2"], 30.0, fen, None))
    for f in FORTRESS:
        for d in ([maxd - 1, maxd, maxd + 1, 100] if not ctx.quick else [maxd, 100]):
            items.append((f"fortress depth {d}", [f"position {f}", f"go depth {d}"], 60.0 if ctx.quick else 240.0, f, None))
        items.append(("fortress infinite", [f"position {f}", "go infinite"], 12.0 if ctx.quick else 40.0, f, None))
        items.append(("fortress clock", [f"position {f}", "go wtime 60000 btime 60000"], 10.0, f, None))
    # long games through `position ... moves` (hundreds of plies), then search
    games = gens.playouts(rng, [START_FEN], ctx.size(6, 60), 700)
    for start, steps in games:
        if len(steps) < 50:
            continue
        mvs = [m for m, _ in steps]
        fen_after = steps[-1][1]
        items.append((f"long game {len(mvs)} plies", ["position startpos moves " + " ".join(mvs), "go depth 2"], 60.0, fen_after, None))
    # long capture sequences: many pieces en prise
    caps = ["k7/8/8/3qrbn1/3QRBN1/8/8/K7 w - - 0 1", "1k6/8/2pppppp/2PPPPPP/8/8/8/1K6 w - - 0 1", "qqqqqqqk/8/8/8/8/8/8/QQQQQQQK w - - 0 1".replace("qqqqqqqk", "qqqqqq1k").replace("QQQQQQQK", "QQQQQQ1K"),
            "r1bqkbnr/pppp1ppp/2n5/4p3/3PP3/5N2/PPP2PPP/RNBQKB1R b KQkq - 0 3"]
    for f in gens.legal_filter(caps):
        items.append(("capture chain", [f"position {f}", "go depth 3"], 120.0, f, None))
    # the longest move lists: positions with far more than a hundred (pseudo-)legal moves for the side to move - at the
    # root, reached through a move list with promotions, and one ply below the root
    crowded = ["R6R/3Q4/1Q4Q1/4Q3/2Q4Q/Q4Q2/pp1Q4/kBNN1KB1 w - - 0 1", "3Q4/1Q4Q1/4Q3/2Q4Q/5Q2/pp1Q4/k7/3K4 w - - 0 95",
               "8/1P6/4Q1Q1/7Q/2Q5/Q4Q2/pp6/k4K2 w - - 0 1"]
    for f in gens.legal_filter(crowded + [gens.mirror_fen(f) for f in crowded]):
        items.append(("crowded perft", [f"position {f}", "perft 1"], 20.0, None, "sync"))
        items.append(("crowded tperft", [f"position {f}", "tperft 1"], 20.0, None, "sync"))
        items.append(("crowded search", [f"position {f}", "go depth 1"], 60.0, f, None))
    pf = "8/1P6/4Q1Q1/7Q/2Q5/Q4Q2/pp6/k4K2 w - - 0 1"
    items.append(("crowded after promotions", [f"position {pf} moves b7b8q b2b1n", "go depth 1"], 60.0, "1Q6/8/4Q1Q1/7Q/2Q5/Q4Q2/p7/kn3K2 w - - 0 2", None))
    items.append(("crowded after promotions perft", [f"position {pf} moves b7b8q b2b1n", "perft 2"], 60.0, None, "sync"))
    # perft/tperft with depth around the stack size on a bare-kings position (cheap per level, deep recursion)
    for d in ([198, 199, 200, 201, 250] if not ctx.quick else [199, 200, 250]):
        items.append((f"perft {d}", ["position 7k/8/8/8/8/8/8/K7 w - - 0 1", f"perft {d}"], 4.0, None, "sync"))
        items.append((f"tperft {d}", ["position 7k/8/8/8/8/8/8/K7 w - - 0 1", f"tperft {d}"], 4.0, None, "sync"))
    sess_items = [(n_, l, w) for n_, l, w, _, _ in items]
    # deep perft on bare kings is exponential: only check that it does not crash within the wait, not that it ends
    results = parallel_map(run_capacity, sess_items, workers=6)
    fens = [it[3] or START_FEN for it in items]
    legal = legal_set(fens)
    ctx.co["co_capacity"] = len(items)
    for (name, lines, wait, fen, kind), r, ls in zip(items, results, legal):
        if not isinstance(r, tuple) or len(r) != 5:
            raise RuntimeError(str(r))
        _, st, bm, crash, alive = r
        ctx.case(name + "|" + lines[0][:120])
        ctx.bump("scenario:" + name.split()[0])
        if kind == "sync":
            if crash or not alive:
                ctx.violation("cap:" + "|".join(lines), {"kind": "history", "lines": lines, "what": "crash: " + crash})
            continue
        if lines[-1].startswith("go"):
            if st != "match":
                ctx.violation("cap:" + "|".join(lines)[:300], {"kind": "history", "lines": [l[:2000] for l in lines], "what": f"no bestmove ({st}): {crash}"})
            elif not ls and bm in ("0000", None):
                ctx.bump("terminal_final_position")       # the game ended in mate / stalemate: `bestmove 0000` is the right answer
            elif bm not in ls:
                ctx.violation("cap-illegal:" + "|".join(lines)[:300], {"kind": "history", "lines": [l[:2000] for l in lines], "what": f"bestmove {bm} not legal"})
        else:
            if st != "match":
                ctx.violation("cap:" + "|".join(lines)[:300], {"kind": "history", "lines": lines, "what": f"engine did not survive ({st}): {crash}"})
        if len(ctx.samples) < 4:
            ctx.sample({"scenario": name, "lines": [l[:100] for l in lines], "status": st, "bestmove": bm})


# --------------------------------------------------------------------------------------------------
# C19: termination

EXIT_STATES = {
    "after-search-of-mated-root": ["position 7k/6Q1/6K1/8/8/8/8/8 b - - 0 1", "go depth 3", "<bestmove>"],
    "after-search-of-stalemated-root": ["position 7k/5Q2/6K1/8/8/8/8/8 b - - 0 1", "go", "<bestmove>"],
    "after-search-of-mate-reached-by-moves": ["position startpos moves f2f3 e7e5 g2g4 d8h4", "go movetime 200", "<bestmove>"],
    "after-infinite-search-of-mated-root": ["position startpos moves f2f3 e7e5 g2g4 d8h4", "go infinite", "<sleep 0.2>"],
    "after-stopped-search": ["position " + KIWI_FEN, "go infinite", "<sleep 0.15>", "stop", "<bestmove>"],
    "after-movetime-search": ["position " + START_FEN, "go movetime 60", "<bestmove>"],
    "after-single-legal-move-search": ["position 7k/8/8/8/8/8/6q1/7K w - - 0 1", "go depth 6", "<bestmove>"],
    "after-mate-found-early": ["position 7k/8/8/8/8/8/R7/1R4K1 w - - 0 1", "go depth 6", "<bestmove>"],
    "after-rejected-go": ["position " + START_FEN, "go depth", "go movestogo 0", "go wtime"],
    "after-two-searches": ["position " + START_FEN, "go depth 2", "<bestmove>", "position startpos moves e2e4", "go depth 2", "<bestmove>"],
    "mid-movetime-search": ["position " + KIWI_FEN, "go movetime 8000", "<sleep 0.15>"],
    "mid-search-after-terminal-search": ["position 7k/5Q2/6K1/8/8/8/8/8 b - - 0 1", "go depth 2", "<bestmove>", "position " + KIWI_FEN, "go infinite", "<sleep 0.15>"],
    "after-stop-without-search": ["stop", "position " + START_FEN, "stop"],
    "after-rejected-position": ["position fen 8/8/8/8/8/8/8/8 w - - 0 1", "go depth 2"],
}


def run_exit(item):
    prefix, mode, state = item
    s = Session()
    try:
        for l in prefix:
            s.send(l)
        if state == "mid-search":
            s.send("position " + KIWI_FEN)
            s.send("go infinite")
            time.sleep(0.15)
        elif state == "after-bestmove":
            s.send("position " + START_FEN)
            s.send("go depth 2")
            wait_bestmove(s, 20.0)
        elif state in EXIT_STATES:
            # the ways a search can begin and end: every one of them must leave a process that still exits
            for l in EXIT_STATES[state]:
                if l == "<bestmove>":
                    wait_bestmove(s, 20.0)
                elif l.startswith("<sleep "):
                    time.sleep(float(l[7:-1]))
                else:
                    s.send(l)
        t0 = time.time()
        if mode == "quit":
            s.send("quit")
        else:
            s.close_stdin()
        rc = s.wait_exit(2.5)
        el = time.time() - t0
        cpu = None
        if rc is None:
            c0 = s.cpu_time()
            time.sleep(0.4)
            c1 = s.cpu_time()
            cpu = (c1 - c0) if (c0 is not None and c1 is not None) else None
        return rc, el, cpu
    finally:
        s.kill()


def run_exit_burst(item):
    """`quit` / end of input arriving with NO gap after `go` - everything in one write, or stdin a regular file whose
    end follows `go` directly - so that they are handled before the search thread has run its first statements;
    optionally on a single OS thread (GOMAXPROCS=1), which makes that interleaving certain"""
    fen, go, mode, single = item
    env = dict(os.environ)
    if single:
        env["GOMAXPROCS"] = "1"
    text = f"position {fen}\n{go}\n" + ("quit\n" if mode == "quit" else "")
    path = os.path.join(BUILD, f"burst_{os.getpid()}_{abs(hash(item)) % 10**9}.txt")
    t0 = time.time()
    try:
        if mode == "eof-file":
            with open(path, "w") as f:
                f.write(text)
            p = subprocess.Popen([MAGOG], stdin=open(path, "rb"), stdout=subprocess.DEVNULL, stderr=subprocess.DEVNULL, env=env)
        elif mode == "unreadable-wronly":
            # no controlling input at all: every read fails with EBADF (what `nohup` from a terminal sets up)
            p = subprocess.Popen([MAGOG], stdin=open(os.devnull, "wb"), stdout=subprocess.DEVNULL, stderr=subprocess.DEVNULL, env=env)
        elif mode == "unreadable-dir":
            # every read fails with EISDIR
            fd = os.open(BUILD, os.O_RDONLY)
            try:
                p = subprocess.Popen([MAGOG], stdin=fd, stdout=subprocess.DEVNULL, stderr=subprocess.DEVNULL, env=env)
            finally:
                os.close(fd)
        else:
            p = subprocess.Popen([MAGOG], stdin=subprocess.PIPE, stdout=subprocess.DEVNULL, stderr=subprocess.DEVNULL, env=env)
            p.stdin.write(text.encode())
            p.stdin.flush()
            if mode == "eof":
                p.stdin.close()
        try:
            rc = p.wait(timeout=2.5)
        except subprocess.TimeoutExpired:
            rc = None
        return rc, time.time() - t0
    finally:
        try:
            p.kill()
            p.wait(timeout=5)
        except Exception:
            pass
        if os.path.exists(path):
            os.remove(path)


def check_C19(ctx):
    rng = ctx.rng
    burst = [(f, g, m, single) for f in (START_FEN, KIWI_FEN) for g in ("go infinite", "go", "go depth 40", "go wtime 600000 btime 600000")
             for m in ("quit", "eof", "eof-file") for single in (False, True)]
    if ctx.quick:
        burst = rng.sample(burst, 20)
    # an input stream that cannot be read at all (persistent read error instead of a clean EOF) is no controlling input either
    burst += [(START_FEN, "go", m, single) for m in ("unreadable-wronly", "unreadable-dir") for single in (False, True)]
    bres = parallel_map(run_exit_burst, burst, workers=6)
    ctx.co["co_exit_burst"] = len(burst)
    for (f, g, m, single), r in zip(burst, bres):
        rc, el = r
        ctx.case(f"burst|{f}|{g}|{m}|{single}")
        ctx.bump(f"burst:{m}" + (":gomaxprocs1" if single else ""))
        if rc is None:
            if m.startswith("unreadable"):
                ctx.violation(f"exit-unreadable:{m}:{single}", {"kind": "history", "lines": ["<stdin is " + ("/dev/null opened write-only: every read fails with EBADF" if m.endswith("wronly") else "a directory: every read fails with EISDIR") + ">"],
                                                                "env": "GOMAXPROCS=1" if single else "", "what": "process did not terminate within 2.5 s although its input stream cannot be read (no controlling input)"})
                continue
            ctx.violation(f"exit-burst:{g}:{m}:{single}", {"kind": "history", "lines": [f"position {f}", g, "quit" if m == "quit" else "<end of input immediately after go>"],
                                                          "env": "GOMAXPROCS=1" if single else "", "what": f"process did not terminate within 2.5 s after {'quit' if m == 'quit' else 'end of input'} sent without any gap after `{g}`"})
    prefixes = [[], ["uci"], ["isready"], ["position startpos"], ["position startpos moves e2e4", "perft 2"], ["xyzzy"], ["position startpos", "go depth 1"], ["setoption name currmoveLogInterval value 100"],
                ["position " + KIWI_FEN, "eval"], [""]]
    items = []
    for pre in prefixes:
        for mode in ("quit", "eof"):
            for state in ("idle", "mid-search", "after-bestmove"):
                if ctx.quick and rng.random() < 0.5:
                    continue
                items.append((pre, mode, state))
    for state in EXIT_STATES:
        for mode in ("quit", "eof"):
            for pre in (rng.sample(prefixes, 2) if ctx.quick else prefixes):
                items.append((pre, mode, state))
    results = parallel_map(run_exit, items, workers=6)
    ctx.co["co_exit"] = len(items)
    for (pre, mode, state), r in zip(items, results):
        if not isinstance(r, tuple) or len(r) != 3:
            raise RuntimeError(str(r))
        rc, el, cpu = r
        ctx.case(f"{pre}|{mode}|{state}")
        ctx.bump(f"{mode}:{state}")
        if rc is None:
            spin = f"; it keeps using CPU ({cpu:.2f}s per 0.4s: spinning)" if cpu and cpu > 0.2 else ("; blocked" if cpu is not None else "")
            ctx.violation(f"exit:{mode}:{state}", {"kind": "history", "lines": pre + (EXIT_STATES[state] if state in EXIT_STATES else ([f"<{state}>"] if state != "idle" else [])) + (["quit"] if mode == "quit" else ["<close stdin>"]),
                                                  "what": f"process did not terminate within 2.5 s after {'quit' if mode == 'quit' else 'end of input'} in state {state}{spin}"})
        if len(ctx.samples) < 3:
            ctx.sample({"prefix": pre, "mode": mode, "state": state, "exit_code": rc, "seconds": round(el, 3)})
# --------------------------------------------------------------------------------------------------

def run(ctx):
    spec = CHECKS[ctx.prop]
    ctx.prep = infra.prepare(lean_targets=[f"Magog.Props.{m}" for m in prop_modules(ctx.prop)], need_race=spec.get("race", False) and not ctx.quick)
    # T3 escalation: mirrored functions whose AST hash changed w.r.t. the committed baseline
    base_path = os.path.join(VERIF, "tools", "func_hashes.json")
    if os.path.exists(base_path):
        base = json.load(open(base_path))
        cur = ctx.prep["facts"]["funcs"]
        changed = sorted(k for k in set(base) | set(cur) if base.get(k) != cur.get(k))
        if changed:
            ctx.escalated = True
            ctx.notes.append("T3 escalation: changed functions " + ",".join(changed[:12]))
    if os.environ.get("VERIF_FORCE_ESCALATE") == "1":
        # self-test of the machinery: run the enlarged quick tier although no mirrored function changed
        ctx.escalated = True
        ctx.notes.append("escalation forced by VERIF_FORCE_ESCALATE")
    rc, out = ctx.prep["lean"]["mdrv"]
    if rc != 0:
        ctx.notes.append("model driver failed to build against the regenerated facts")
        ctx.mdrv_broken = out[-2000:]
    else:
        ctx.mdrv_broken = None
    aud = audit_proofs(ctx)
    if not aud["ok"]:
        # always on record, also when a correspondence then finds a concrete input (which is what gets reported)
        first = (aud.get("detail") or "").strip().split("\n")[0][:300]
        ctx.notes.append(f"proof obligation no longer checks: {aud.get('target')}: {aud['why']}: {first}")
        log(f"proof obligation no longer checks: {aud.get('target')}: {aud['why']}: {first}")
    if ctx.mdrv_broken is None:
        spec["fn"](ctx)
    if ctx.mdrv_broken is not None and not ctx.violations:
        ctx.violation("mdrv-build", {"kind": "unproved", "what": "the Lean model no longer builds against the facts regenerated from the source", "detail": ctx.mdrv_broken}, found=False)
    tie_lines, tie_note = [], ""
    if not aud["ok"] and str(aud.get("target", "")).endswith("Tie"):
        # a tie theorem (translated Go function = model function) broke: where do the two functions part ways?
        import tiehunt
        try:
            tie_lines, tie_note = tiehunt.diagnose(ctx.prop)
        except Exception as e:
            tie_note = f"tie diagnosis failed: {e}"
        for l in tie_lines[:5]:
            ctx.notes.append("translated code vs model: " + l)
            log("translated code vs model: " + l)
        if tie_note:
            ctx.notes.append(tie_note)
            log(tie_note[:400])
    if not aud["ok"] and not ctx.violations:
        # proof obligation no longer checks: property-specific hunt, then report
        hunt = spec.get("hunt")
        if hunt:
            hunt(ctx, aud)
        if not ctx.violations:
            ctx.violation("proof:" + aud["why"], {"kind": "unproved", "theorem_module": aud.get("target"), "what": aud["why"], "detail": aud.get("detail", "")[:3000],
                                                  "translated_code_vs_model": tie_lines[:8], "translator_note": tie_note}, found=False)


def replay(ctx, path):
    r = json.load(open(path))
    ctx.prep = infra.prepare(lean_targets=[])
    print(json.dumps(r, indent=1)[:3000])
    kind = r.get("kind")
    if kind == "input" and "fen" in r and "op" in r:
        go = run_batch(HDRV, [r["op"]])
        print("engine now:", go[0])
        sop = r["op"].split("\t")
        sop[0] = "s" + sop[0]
        print("spec      :", run_batch(MDRV, ["\t".join(sop)])[0])
    elif "lines" in r and isinstance(r["lines"], list):
        env = {}
        if r.get("env") == "VERIF_STABLE_SORT=1":
            env["VERIF_STABLE_SORT"] = "1"
        s = Session(env=env)
        for l in r["lines"]:
            l = str(l)
            m = re.match(r"^<sleep ([0-9.]+) ?s?>$", l)
            if l.startswith("<wait for bestmove>") or l == "<bestmove>":
                g, st = wait_bestmove(s, 60.0)
                print("   ...", (g[-1] if g else st))
            elif m:
                time.sleep(float(m.group(1)))
            elif l.startswith("<while that search runs> "):
                s.send(l[len("<while that search runs> "):])
            elif l.startswith("hex:"):
                s.send(bytes.fromhex(l[4:]))
            elif l.startswith("<") or l.startswith("interrupt mode="):
                print(f"   (schedule step `{l}` needs the sync hooks: re-run `python3 tools/check.py {ctx.prop} --tier quick` to force it; skipped in this plain replay)")
            else:
                s.send(l)
        time.sleep(1.0)
        s.send("isready")
        got, st = s.read_until(lambda l: l == "readyok", 5)
        print("\n".join(got[-20:]))
        print("status:", st, "alive:", s.alive(), crash_line(s))
        s.kill()
    return 0


def crash_line(s):
    return infra.crash_class(s.stderr_text())


def with_trace(fn, nq, nt):
    def run_both(ctx):
        fn(ctx)
        trace_correspondence(ctx, nq, nt)
    return run_both


CHECKS = {
    "C01": {"fn": check_C01, "rule": "positions from the suite FENs, targeted families, spec playouts, constructive placements (promoted material, castling/ep fields), one-piece mutations and colour mirrors, all filtered by Spec.Legal; a case is non-trivial if the position has at least one legal move; distinct by FEN"},
    "C02": {"fn": lambda ctx: (check_C02(ctx), stopped_search_position_check(ctx, ctx.size(10, 300)), check_C07(ctx)), "rule": "moves played through the command path as well (`position ... moves`, the replay check of C07); biased random playouts of the Lean specification from start/suite/targeted/constructive positions; engine PushMove/PopMove snapshots vs model vs Spec.apply at every ply; distinct by (start, first 40 moves)"},
    "C06": {"fn": check_C06, "rule": "same position pool as C01; tactical list, tactical flag, both counters vs specification; Perft/PerftTactical depth 2-4 vs Spec.paths; UCI perft/tperft divide text for n=1,2; non-trivial if the position has a tactical move"},
    "C09": {"fn": check_C09, "rule": "attack rows: one attacker (12 kinds) on any square, optional single blocker on any other square, all 64 targets per row (sampled in quick, exhaustive otherwise) plus attacked-square maps of full positions; distinct by placement"},
    "C03": {"fn": with_trace(check_C03, 16, 200), "rule": "legal non-terminal positions (by FEN and by move list) x go forms (depth, movetime incl. 1 ms, clocks incl. 1 ms and negative, movestogo, infinite+stop at several delays, bare go); one case = (position, form); count of bestmove lines and legality per Spec.legalMoves"},
    "C04": {"fn": with_trace(check_C04, 16, 300), "rule": "positions (sparse ones up to depth 3-4, dense ones depth 1-2): engine root value per iteration (hook VerifSearch = startAlphaBeta sequence) vs the Lean model's reference search with full evaluation; lazy-cut hook adjudicates admitted deviations; plus iteration-sequence check through UCI"},
    "C05": {"fn": check_C05, "rule": "sparse constructive positions classified by the AND/OR specification (forced mate within 3 plies for either side / none); engine `go depth 3` score and the reply's distance; terminal classification and eval range on the broad pool; formatScore Go vs model"},
    "C07": {"fn": check_C07, "rule": "playout games and criticalPositions games rendered as `position` lines in the startpos / fen-keyword / bare-FEN forms with random upper-case promotion letters; engine snapshot vs Spec.play; all 20480 move strings round trip"},
    "C08": {"fn": check_C08, "rule": "valid FENs of legal positions with move numbers 1..9999 vs an independent reader; a fixed list of unrepresentable positions; near-valid mutations and random bytes (Go vs model outcome class, no crash, accepted => consistent); rejected FEN keeps the position"},
    "C10": {"fn": with_trace(check_C10, 24, 400), "rule": "searches with the 200 ms print gate forced open by a sleep hook so every PV improvement is printed; strict UCI grammar on every info line; every PV replayed by the specification; bestmove = head of last PV; currmove legality and numbering"},
    "C11": {"fn": with_trace(check_C11, 16, 200), "rule": "stop placed (hold hook) and deadline expiry placed (expire hook) after chosen root moves of iterations 2-4 and between iterations, plus wall-clock stops; bestmove vs a fresh `go depth D` for the deepest completed iteration D"},
    "C12": {"fn": check_C12, "race": True, "rule": "every (search phase x command sequence) class forced by holding the search goroutine in a sync hook while the command thread processes the lines; watchdog isready; bestmove count; engine usable afterwards; static access table conflicts"},
    "C13": {"fn": check_C13, "rule": "complete boundary lattice (67500 cases) + random clocks: calcEndtime vs model, and bounds / own-clock / monotonicity directly on the engine's values; doGo token parsing through the real command path (deadline hook) vs model; measured wall-clock overshoot"},
    "C14": {"fn": with_trace(check_C14, 24, 400), "rule": "probe `position P; go depth d` after a random command history (other games, finished and stopped searches, perft/eval, option changes) vs the same probe in a fresh process; canonical analysis = per-depth score, pv, nodes + bestmove"},
    "C16": {"fn": check_C16, "rule": "random query sequences (go to completion, go stopped at random times, movetime, perft, tperft, eval, tostr, isready, setoption) after `position P`; tostr + perft 1 text before/after; following search vs fresh search"},
    "C17": {"fn": lambda ctx: (check_C17(ctx), uci_model_correspondence(ctx)), "rule": "grammar-directed lines with boundary/malformed arguments and random bytes: synchronous lines in-process (panic recovered per line), fixed boundary scripts and random sessions with searches against the real binary; must keep answering isready"},
    "C18": {"fn": check_C18, "rule": "stress scenarios: move numbers 1..9999, fortress positions at depth MaxSearchDepth-1..100 and infinite, games of hundreds of plies through `position ... moves`, capture chains, perft depth around the stack size"},
    "C19": {"fn": check_C19, "rule": "command prefixes x {quit, EOF} x {idle, mid-search, after bestmove}: process must exit within 2.5 s; CPU use of a survivor recorded"},
    "C15": {"fn": check_C15, "rule": "evaluation of each pool position vs its colour-flipped mirror on the engine; engine vs model for full and cheap parts; complete blend domain Go float64 vs Lean Float"},
}


def drop_zero(canon_divide):
    if "|" not in canon_divide:
        return canon_divide
    items, total = canon_divide.rsplit("|", 1)
    return ",".join(x for x in items.split(",") if x and not x.endswith(":0")) + "|" + total
