#!/bin/bash
# usage: seedtest.sh <seed dir containing patch.diff> <tier> <property ids...>
# (1) confirms in a scratch worktree that the change compiles (with and without the tag) and passes the suite,
# (2) applies it to /repo, runs the given checks, and undoes it straight afterwards.
set -u
export GOFLAGS=-mod=mod GOPROXY=off GOSUMDB=off GOTOOLCHAIN=local
export VERIF_EVIDENCE_DIR=/verif/build/seed_evidence
D=$1; tier=$2; shift 2
P=${PATCH:-$D/patch.diff}
W=/tmp/seedwt_$$
git -C /repo worktree add -q --detach $W HEAD || exit 2
( cd $W && git apply $P && go build ./... && go build -tags verif ./... && go vet -tags verif ./engine >/dev/null 2>&1; echo "build rc=$?"; 
  if [ "${SKIPSUITE:-0}" = "0" ]; then go test -vet=off -count=1 ./... 2>&1 | tail -1; fi )
git -C /repo worktree remove --force $W
cd /verif
git -C /repo apply $P || { echo "patch does not apply to /repo"; exit 2; }
for p in "$@"; do
  s=$(date +%s)
  out=$(python3 tools/check.py $p --tier $tier 2>/verif/build/seed_err_$p.log)
  rc=$?
  e=$(date +%s)
  echo "CHECK $p rc=$rc $((e-s))s: $(echo "$out" | grep -E 'VIOLATION|KNOWN' | head -3)"
  for r in $(echo "$out" | grep -o 'replay=[^ ]*' | head -2 | cut -d= -f2); do python3 -c "
import json; r=json.load(open('$r')); print('   what:', str(r.get('what'))[:300]); print('   lines:', str(r.get('lines') or r.get('fen') or r.get('op'))[:300])"; done
done
git -C /repo checkout -- .
git -C /repo status --short | head -3
# the binaries in /verif/build were built from the patched tree: force the next prepare() to rebuild them,
# and rebuild now so that nothing started by hand picks up a seeded engine
rm -f /verif/build/stamp.json
python3 - <<'PY'
import sys; sys.path.insert(0, "/verif/tools")
import infra
infra.prepare(lean_targets=[])
PY
