"""Input generators. Every random choice comes from one random.Random(seed)."""
import os, random, re
from infra import REPO, START_FEN, KIWI_FEN, MDRV, run_batch

FILES = "abcdefgh"


def suite_fens():
    path = os.path.join(REPO, "engine", "movegen_test.go")
    out = []
    try:
        src = open(path).read()
    except OSError:
        return [START_FEN, KIWI_FEN]
    for m in re.finditer(r'"([1-8pnbrqkPNBRQK/]+ [wb] [KQkq-]+ [a-h1-8-]+ \d+ \d+)"', src):
        if m.group(1) not in out:
            out.append(m.group(1))
    return out or [START_FEN, KIWI_FEN]


def critical_games():
    """position lines of testData/criticalPositions.txt -> list of (startfen, [moves])"""
    path = os.path.join(REPO, "testData", "criticalPositions.txt")
    games = []
    try:
        for line in open(path, encoding="utf-8", errors="replace"):
            line = line.strip()
            if line.startswith("position startpos moves "):
                games.append((START_FEN, line[len("position startpos moves "):].split()))
    except OSError:
        pass
    return games


def board_from_fen(fen):
    rows = fen.split()[0].split("/")
    b = [["." for _ in range(8)] for _ in range(8)]  # b[rank][file], rank 0 = first rank
    for i, row in enumerate(rows):
        r = 7 - i
        f = 0
        for c in row:
            if c.isdigit():
                f += int(c)
            else:
                b[r][f] = c
                f += 1
    return b


def board_to_fen(b):
    rows = []
    for r in range(7, -1, -1):
        s = ""
        gap = 0
        for f in range(8):
            c = b[r][f]
            if c == ".":
                gap += 1
            else:
                if gap:
                    s += str(gap)
                    gap = 0
                s += c
        if gap:
            s += str(gap)
        rows.append(s)
    return "/".join(rows)


def mirror_move(m):
    """the same move on the colour-flipped board (ranks reversed)"""
    flip = lambda sq: sq[0] + str(9 - int(sq[1]))
    return flip(m[0:2]) + flip(m[2:4]) + m[4:]


def mirror_fen(fen):
    parts = fen.split()
    b = board_from_fen(fen)
    nb = [[b[7 - r][f].swapcase() if b[7 - r][f] != "." else "." for f in range(8)] for r in range(8)]
    turn = "b" if parts[1] == "w" else "w"
    c = parts[2]
    if c != "-":
        c2 = "".join(ch.swapcase() for ch in c)
        c = "".join(ch for ch in "KQkq" if ch in c2) or "-"
    ep = parts[3]
    if ep != "-":
        ep = ep[0] + str(9 - int(ep[1]))
    return f"{board_to_fen(nb)} {turn} {c} {ep} {parts[4]} {parts[5]}"


def placement64(fen):
    b = board_from_fen(fen)
    return "".join(b[r][f] for r in range(8) for f in range(8))


TARGETED = [
    # in check, and the only legal replies are interposing pawn DOUBLE steps (a mate test that tries only the single
    # step calls these mate); also leaves of short searches from the positions one move earlier
    "8/6p1/R7/R6k/8/6K1/8/8 b - - 0 1",
    "8/8/6k1/8/r6K/r7/6P1/8 w - - 0 1",
    "8/6p1/R7/7k/R7/6K1/8/8 w - - 0 1",
    "k7/2p1p3/3p3B/5Q2/7p/8/K7/8 w - - 0 1",
    "8/1pp2pp1/k7/8/1Q1p4/8/4P3/B2K4 w - - 0 1",
    "7k/8/8/8/1q6/8/3P4/4K3 w - - 0 1",
    "4k3/3p4/8/1Q6/8/8/8/7K b - - 0 1",
    # en-passant capture that would expose the king along the rank (illegal ep)
    "8/8/8/KPp4r/8/8/8/7k w - c6 0 1",
    "7k/8/8/8/R4pPk/8/8/K7 b - g3 0 1".replace("7k/8", "8/8"),
    # ep capture exposing the king along a diagonal
    "8/8/8/2pP4/8/5K2/8/b6k w - c6 0 1".replace("b6k", "7k"),
    "4k3/8/8/2pP4/1K6/8/8/7b w - c6 0 1",
    "8/6b1/8/3pP3/8/2K5/8/7k w - d6 0 1",
    # ep while in check (capturing the checking pawn / not resolving the check)
    "8/8/8/2k5/3Pp3/8/8/4K3 b - d3 0 1",
    "8/8/8/8/3pP3/2K5/8/7k b - e3 0 1",
    "4k3/8/8/3pP3/4K3/8/8/8 w - d6 0 1",
    # castling with b1/b8 attacked but c/d not (allowed), through check, into check, out of check
    "r3k2r/8/8/8/8/8/8/R3K2R w KQkq - 0 1",
    "r3k2r/8/8/8/8/8/1r6/R3K2R w KQkq - 0 1",
    "4k3/8/8/8/8/8/8/R3K2r w Q - 0 1",
    "1r2k3/8/8/8/8/8/8/R3K3 w Q - 0 1",
    "2r1k3/8/8/8/8/8/8/R3K3 w Q - 0 1",
    "3rk3/8/8/8/8/8/8/R3K3 w Q - 0 1",
    "4kr2/8/8/8/8/8/8/4K2R w K - 0 1",
    "4k1r1/8/8/8/8/8/8/4K2R w K - 0 1",
    "4k2r/8/8/8/8/8/8/4K2R w K - 0 1",
    "4r3/8/8/8/8/8/8/R3K2R w KQ - 0 1",
    "r3k2r/8/8/8/8/8/8/1R2K2R b kq - 0 1",
    "r3k2r/8/8/8/8/8/8/2R1K2R b kq - 0 1",
    "r3k2r/8/8/8/8/8/8/R2RK3 b kq - 0 1".replace("R2RK3", "3RK2R"),
    "rn2k2r/8/8/8/8/8/8/4K3 b kq - 0 1",
    "r3k1nr/8/8/8/8/8/8/4K3 b kq - 0 1",
    # double check
    "4k3/8/8/8/8/5n2/4r3/4K3 w - - 0 1".replace("4r3/4K3", "8/4K2r"),
    "4k3/4R3/8/8/8/8/8/4K2B b - - 0 1",
    "R3k3/8/5N2/8/8/8/8/4K3 b - - 0 1",
    # promotion-capture by a pinned pawn; promotions with and without capture
    "3rk3/4P3/8/8/8/8/8/4K3 w - - 0 1",
    "r3k3/1P6/8/8/8/8/8/K7 w - - 0 1",
    "rn2k3/P7/8/8/8/8/8/K7 w - - 0 1",
    "4k3/8/8/8/8/8/1p6/R1N1K3 b - - 0 1",
    "4k3/8/8/8/8/8/p7/RK6 b - - 0 1",
    "n1n5/PPPk4/8/8/8/8/4Kppp/5N1N b - - 0 1",
    # king capturing a defended / undefended piece, king next to king
    "4k3/8/8/8/8/8/3q4/4K3 w - - 0 1",
    "4k3/8/8/8/8/2b5/3q4/4K3 w - - 0 1",
    "8/8/8/8/8/3k4/8/3K4 w - - 0 1",
    # rook captured on its corner with rights set
    "r3k2r/8/8/8/8/8/6B1/R3K2R w KQkq - 0 1",
    "r3k2r/1B6/8/8/8/8/8/R3K2R w KQkq - 0 1",
    "r3k2r/8/8/8/8/8/6b1/R3K2R b KQkq - 0 1",
    # promotion captures on rook corners with castling rights still set; corner-to-corner captures
    "r3k2r/1P4P1/8/8/8/8/1p4p1/R3K2R w KQkq - 0 1",
    "r3k2r/1P4P1/8/8/8/8/1p4p1/R3K2R b KQkq - 0 1",
    "rn2k1nr/1P4P1/8/8/8/8/1p4p1/RN2K1NR w KQkq - 0 1",
    "rn2k1nr/1P4P1/8/8/8/8/1p4p1/RN2K1NR b KQkq - 0 1",
    "rn2k2r/8/8/8/8/8/8/R3K2B w Qkq - 0 1",
    "r3k1nr/8/8/8/8/8/8/B3K2R w Kkq - 0 1",
    "b3k2r/8/8/8/8/8/8/RN2K2R b KQk - 0 1",
    "r3k2b/8/8/8/8/8/8/R3K1NR b KQq - 0 1",
    "rn2k2r/8/8/8/8/8/8/R3K2R w KQkq - 0 1",
    # double push answered by a promotion next to a start-rank pawn
    "8/pp4P1/8/2k5/8/8/8/4K3 b - - 0 1",
    "4k3/8/8/8/2K5/8/PP4p1/8 w - - 0 1",
    # many promoted pieces
    "QQQQQQQk/8/8/8/8/8/8/K7 w - - 0 1".replace("QQQQQQQk", "QQQ1QQ1k"),
    "4k3/8/8/8/8/1QQQ4/1QQQ4/KQQQ4 w - - 0 1",
    "qqqqk3/qqqq4/8/8/8/8/8/K7 b - - 0 1".replace("K7", "7K"),
    "NNNNk3/NNNN4/8/8/8/8/8/K7 w - - 0 1".replace("NNNNk3", "NNN1k3"),
    # stalemates / mates
    "7k/5Q2/6K1/8/8/8/8/8 b - - 0 1",
    "7k/6Q1/6K1/8/8/8/8/8 b - - 0 1",
    "k7/8/1K6/8/8/8/8/7R w - - 0 1",
    KIWI_FEN,
    START_FEN,
    "rnbq1bnr/pppkpppp/8/3P4/8/8/PP1PPPPP/RNBQKBNR w KQ - 1 3",
    "8/2p5/3p4/KP5r/1R3p1k/8/4P1P1/8 w - - 0 1",
    "r4rk1/1pp1qppp/p1np1n2/2b1p1B1/2B1P1b1/P1NP1N2/1PP1QPPP/R4RK1 w - - 0 10",
    "rnbq1k1r/pp1Pbppp/2p5/8/2B5/8/PPP1NnPP/RNBQK2R w KQ - 1 8",
    "r3k2r/Pppp1ppp/1b3nbN/nP6/BBP1P3/q4N2/Pp1P2PP/R2Q1RK1 w kq - 0 1",
]


def constructive(rng, n):
    """random placements: kings first, then pawns and pieces, castling/ep made consistent.
    Not yet filtered for legality (side not to move may be in check): filter with `legal_filter`."""
    out = []
    for _ in range(n):
        b = [["." for _ in range(8)] for _ in range(8)]
        sq = [(r, f) for r in range(8) for f in range(8)]
        style = rng.random()
        # castling-friendly kings sometimes
        if rng.random() < 0.3:
            wk = (0, 4)
        else:
            wk = rng.choice(sq)
        while True:
            bk = (7, 4) if rng.random() < 0.3 else rng.choice(sq)
            if max(abs(bk[0] - wk[0]), abs(bk[1] - wk[1])) > 1:
                break
        b[wk[0]][wk[1]] = "K"
        b[bk[0]][bk[1]] = "k"
        for white in (True, False):
            if style < 0.25:
                npawn = rng.randint(0, 3)
                nother = rng.randint(0, 3)
            elif style < 0.5:
                npawn = rng.randint(0, 8)
                nother = rng.randint(0, 7)
            elif style < 0.75:
                npawn = rng.randint(0, 4)
                nother = rng.randint(4, 15 - npawn)   # promoted material
            else:
                npawn = rng.randint(4, 8)
                nother = rng.randint(0, 15 - npawn)
            kinds = "QRBN" if white else "qrbn"
            weights = rng.choice([(1, 1, 1, 1), (5, 1, 1, 1), (1, 1, 1, 5), (1, 4, 1, 1), (1, 1, 4, 1)])
            for _ in range(npawn):
                for _try in range(20):
                    r, f = rng.randint(1, 6), rng.randint(0, 7)
                    if b[r][f] == ".":
                        b[r][f] = "P" if white else "p"
                        break
            # rooks on corners sometimes, for castling
            home = 0 if white else 7
            for cf in (0, 7):
                if nother > 0 and b[home][4] in "Kk" and b[home][cf] == "." and rng.random() < 0.5:
                    b[home][cf] = "R" if white else "r"
                    nother -= 1
            for _ in range(nother):
                for _try in range(20):
                    r, f = rng.randint(0, 7), rng.randint(0, 7)
                    if b[r][f] == ".":
                        b[r][f] = rng.choices(kinds, weights)[0]
                        break
        turn = rng.choice("wb")
        c = ""
        if b[0][4] == "K":
            if b[0][7] == "R" and rng.random() < 0.7:
                c += "K"
            if b[0][0] == "R" and rng.random() < 0.7:
                c += "Q"
        if b[7][4] == "k":
            if b[7][7] == "r" and rng.random() < 0.7:
                c += "k"
            if b[7][0] == "r" and rng.random() < 0.7:
                c += "q"
        ep = "-"
        # ep: white to move -> black pawn on rank 5 (index 4) with rank 6, 7 squares behind it empty
        cands = []
        for f in range(8):
            if turn == "w" and b[4][f] == "p" and b[5][f] == "." and b[6][f] == ".":
                cands.append(FILES[f] + "6")
            if turn == "b" and b[3][f] == "P" and b[2][f] == "." and b[1][f] == ".":
                cands.append(FILES[f] + "3")
        if cands and rng.random() < 0.6:
            ep = rng.choice(cands)
        full = rng.choice([1, 1, 2, 7, 30, 99, rng.randint(1, 100)])
        out.append(f"{board_to_fen(b)} {turn} {c or '-'} {ep} 0 {full}")
    return out


def mutate_one_piece(rng, fen):
    parts = fen.split()
    b = board_from_fen(fen)
    occ = [(r, f) for r in range(8) for f in range(8) if b[r][f] not in ".Kk"]
    emp = [(r, f) for r in range(8) for f in range(8) if b[r][f] == "."]
    kind = rng.random()
    if kind < 0.4 and occ and emp:
        r, f = rng.choice(occ)
        r2, f2 = rng.choice(emp)
        if b[r][f] in "Pp" and r2 in (0, 7):
            return None
        b[r2][f2] = b[r][f]
        b[r][f] = "."
    elif kind < 0.6 and occ:
        r, f = rng.choice(occ)
        b[r][f] = "."
    elif emp:
        r, f = rng.choice(emp)
        pc = rng.choice("QRBNPqrbnp")
        if pc in "Pp" and r in (0, 7):
            return None
        b[r][f] = pc
    else:
        return None
    # keep castling/ep fields only if still consistent; simplest: drop ep, keep castling if homes intact
    c = ""
    if b[0][4] == "K":
        if "K" in parts[2] and b[0][7] == "R":
            c += "K"
        if "Q" in parts[2] and b[0][0] == "R":
            c += "Q"
    if b[7][4] == "k":
        if "k" in parts[2] and b[7][7] == "r":
            c += "k"
        if "q" in parts[2] and b[7][0] == "r":
            c += "q"
    return f"{board_to_fen(b)} {parts[1]} {c or '-'} - {parts[4]} {parts[5]}"


def playouts(rng, starts, games, plies):
    """biased random playouts of the Lean specification: returns list of (startfen, [(move, fen_after)])"""
    ops = []
    meta = []
    for g in range(games):
        fen = rng.choice(starts)
        seed = rng.getrandbits(48)
        full = fen.split()[5]
        ops.append(f"playout\t{seed}\t{plies}\t{full}\t{fen}")
        meta.append(fen)
    res = run_batch(MDRV, ops)
    out = []
    for fen, r in zip(meta, res):
        if not r or not r.startswith("ok"):
            continue
        steps = []
        body = r[3:]
        if body:
            for item in body.split(";"):
                mv, f2 = item.split("=", 1)
                steps.append((mv, f2))
        out.append((fen, steps))
    return out


def all_sequences(fens, depth):
    """every legal move sequence of the given length from each position: list of (fen, [moves])"""
    res = run_batch(MDRV, [f"sseq\t{f}\t{depth}" for f in fens])
    out = []
    for f, r in zip(fens, res):
        if r and r.startswith("ok ") and len(r) > 3:
            for seq in r[3:].split(";"):
                if seq:
                    out.append((f, seq.split(" ")))
    return out


def promo_sibling_family():
    """two pawns on the seventh rank, two files apart, that can both capture-promote on the square between them, their
    push squares blocked (so that the two groups of four promotions are neighbours in any generation order), and
    exactly one of them pinned - on its file or on the outer diagonal; both colours. A generator that shares one
    legality verdict among `the promotions to this square` gets these wrong (round-12 seed)."""
    out = []
    for d in range(1, 7):
        for cap in "nbrq":
            for variant in "ABCD":
                for kr in (4, 3):
                    b = [["." for _ in range(8)] for _ in range(8)]
                    b[7][d] = cap
                    b[6][d - 1] = "P"
                    b[6][d + 1] = "P"
                    b[7][d - 1] = "n"
                    b[7][d + 1] = "n"
                    if variant == "A":
                        b[7][d + 1] = "r"
                        b[kr][d + 1] = "K"
                    elif variant == "B":
                        b[7][d - 1] = "r"
                        b[kr][d - 1] = "K"
                    elif variant == "C":
                        if d - 2 < 0 or kr != 4:
                            continue
                        b[7][d - 2] = "b"
                        b[5][d] = "K"
                    else:
                        if d + 2 > 7 or kr != 4:
                            continue
                        b[7][d + 2] = "b"
                        b[5][d] = "K"
                    kf = 7 if d < 4 else 0
                    if b[0][kf] != ".":
                        continue
                    b[0][kf] = "k"
                    f = board_to_fen(b) + " w - - 0 1"
                    out.append(f)
                    out.append(mirror_fen(f))
    return out


def legal_filter(fens):
    """keep the FENs the specification calls legal positions (and the current model can load)"""
    res = run_batch(MDRV, [f"slegal\t{f}" for f in fens])
    return [f for f, r in zip(fens, res) if r == "ok 1"]


def position_pool(rng, n, long_games=False):
    """mixed pool of legal positions: suite, targeted, playouts, constructive, mirrors, mutations"""
    suite = suite_fens()
    pool = []
    fam = {}

    def add(tag, fens):
        for f in fens:
            pool.append(f)
            fam[tag] = fam.get(tag, 0) + 1
    targeted = legal_filter(list(dict.fromkeys(TARGETED)))
    add("suite", suite)
    add("targeted", targeted)
    add("promo-siblings", legal_filter(promo_sibling_family()))
    n_con = max(50, n // 3)
    con = legal_filter(constructive(rng, int(n_con * 1.7)))[:n_con]
    add("constructive", con)
    n_play = max(50, n // 3)
    plies = 120 if long_games else 50
    games = max(3, n_play // plies + 1)
    starts = [START_FEN] * 3 + [KIWI_FEN] + targeted[:30] + suite[:20] + con[:40]
    pl = playouts(rng, starts, games, plies)
    pfens = [f for _, steps in pl for _, f in steps]
    rng.shuffle(pfens)
    add("playout", pfens[:n_play])
    base = pool[:]
    muts = []
    for f in rng.sample(base, min(len(base), max(20, n // 8))):
        m = mutate_one_piece(rng, f)
        if m:
            muts.append(m)
    add("mutation", legal_filter(muts))
    mirrors = [mirror_fen(f) for f in rng.sample(pool, min(len(pool), max(20, n // 6)))]
    add("mirror", legal_filter(mirrors))
    # dedupe, keep order
    seen = set()
    out = []
    for f in pool:
        if f not in seen:
            seen.add(f)
            out.append(f)
    return out, fam
