"""When a tie theorem (Props/*Tie.lean, DESIGN 11.9) no longer builds: evaluate the translated Go function
(Magog.Gen.Fn.*, regenerated from the source) and the hand-written model function on a boundary lattice with Lean's
evaluator and report the arguments on which they differ. This is a diagnosis of the broken obligation - a concrete
input on which the *code as translated* and the *model* part ways - not yet a violation of the property: the
property-level input is searched by the correspondences; what is found here is attached to the report."""
import os, re
import infra
from infra import LEAN, BUILD

PRELUDE = """import Magog.Generated.Funcs
import Magog.Model.Time
import Magog.Model.MoveGen
import Magog.Model.Fen
import Magog.Model.Position
import Magog.Model.Search
import Magog.Lemmas.EvalDecision
open Magog
def okEqI (a : Except String Int) (b : Model.M Int) : Bool :=
  match a, b with | .ok x, .ok y => x == y | .error _, .error _ => true | _, _ => false
def showE {α} [ToString α] (a : Except String α) : String := match a with | .ok x => s!"ok {x}" | .error e => s!"panic({e})"
def showM {α} [ToString α] (a : Model.M α) : String := match a with | .ok x => s!"ok {x}" | .error _ => "panic"
def clocks : List Int := [-1, 0, 1, 2, 49, 50, 51, 52, 100, 101, 1000, 60000, 4398046511104]
"""

HUNTS = {
    "C13": """
#eval show IO Unit from do
  let mut n := 0
  for b in [true, false] do
    for l in clocks do
      for i in clocks do
        for m in [0, 1, 2, 3, 30, 40, 1000] do
          let o : Int := 777
          let (bl, bi, wl, wi) := if b then (l, i, o, o) else (o, o, l, i)
          let x := Gen.Fn.calcEndtime_millis bl bi wl wi m b
          let y := Model.allot b bl bi wl wi m
          if !(okEqI x y) && n < 5 then
            n := n + 1
            IO.println s!"MISMATCH calcEndtime blackToMove={b} left={l} inc={i} movestogo={m}: code {showE x}, model {showM y}"
""",
    "C18": """
#eval show IO Unit from do
  let mut n := 0
  for k in List.range 70000 do
    let p : Int := Int.ofNat k - 35000
    if Gen.Fn.killerSlot p != (Model.killerIdx p : Int) && n < 5 then
      n := n + 1
      IO.println s!"MISMATCH killerSlot ply={p}: code {Gen.Fn.killerSlot p}, model {Model.killerIdx p}"
""",
    "C09": """
#eval show IO Unit from do
  let mut n := 0
  for f in List.range 120 do
    for t in List.range 120 do
      if Gen.Fn.moveIndex f t != Model.moveIndex f t && n < 5 then
        n := n + 1
        IO.println s!"MISMATCH moveIndex from={f} to={t}: code {Gen.Fn.moveIndex f t}, model {Model.moveIndex f t}"
  for s in List.range 128 do
    if (Gen.Fn.square_getFile s != (Model.fileOf s : Int) || Gen.Fn.square_getRank s != (Model.rankOf s : Int)) && n < 8 then
      n := n + 1
      IO.println s!"MISMATCH getFile/getRank square={s}: code {Gen.Fn.square_getFile s}/{Gen.Fn.square_getRank s}, model {Model.fileOf s}/{Model.rankOf s}"
""",
    "C08": """
#eval show IO Unit from do
  let mut n := 0
  for c in List.range 300 do
    if Gen.Fn.charToPiece c != (Model.charToPiece c : Int) && n < 5 then
      n := n + 1
      IO.println s!"MISMATCH charToPiece char={c}: code {Gen.Fn.charToPiece c}, model {Model.charToPiece c}"
  let pcs : List Nat := [0, 160, 136, 96, 72, 129, 65]
  for fl in List.range 32 do
    for e1 in pcs do for h1 in pcs do for a1 in pcs do for e8 in pcs do for h8 in pcs do for a8 in pcs do
      let board : Array Nat := (((((Array.replicate 128 0).set! Gen.E1 e1).set! Gen.H1 h1).set! Gen.A1 a1).set! Gen.E8 e8).set! Gen.H8 h8 |>.set! Gen.A8 a8
      let p : Model.Position := { Model.emptyPosition with board := board, flags := fl }
      let x := Gen.Fn.areCastlingFlagsConsistent fl e1 h1 a1 e8 h8 a8
      if x != Model.castlingConsistent p && n < 8 then
        n := n + 1
        IO.println s!"MISMATCH areCastlingFlagsConsistent flags={fl} e1={e1} h1={h1} a1={a1} e8={e8} h8={h8} a8={a8}: code {x}, model {Model.castlingConsistent p}"
""",
    "C02": """
#eval show IO Unit from do
  let mut n := 0
  let sqs : List Nat := [0, 4, 7, 16, 96, 112, 116, 119, 52]
  for white in [true, false] do
    let curRank : Nat := if white then Gen.Rank1 else Gen.Rank8
    let enRank : Nat := if white then Gen.Rank8 else Gen.Rank1
    let curK : Nat := if white then Model.FWK else Model.FBK
    let curQ : Nat := if white then Model.FWQ else Model.FBQ
    let enK : Nat := if white then Model.FBK else Model.FWK
    let enQ : Nat := if white then Model.FBQ else Model.FWQ
    for fl in List.range 32 do
      for f in sqs do
        for t in sqs do
          let m : Model.Move := ⟨f, t, 0, Model.InvalidSq⟩
          let x := Gen.Fn.MakeMove_corners fl curRank curQ curK enRank enQ enK f t
          let y := Model.mmCorners fl m curRank enRank curK curQ enK enQ
          if x != (y : Int) && n < 5 then
            n := n + 1
            IO.println s!"MISMATCH MakeMove castling-corner tests whiteToMove={white} flags={fl} from={f} to={t}: code {x}, model {y}"
""",
    "C05": """
#eval show IO Unit from do
  let mut n := 0
  for mate in [true, false] do
    for cheap in [(-2000 : Int), -371, -321, -320, -319, 0, 10, 319, 320, 321, 371, 2000] do
      for (alpha, beta) in [((-32001 : Int), (32001 : Int)), (-50, 50), (0, 1), (-1, 0), (100, 400)] do
        for own in [(0 : Nat), 1, 20] do
          for enemy in [(0 : Nat), 5, 20] do
            for depth in [(0 : Int), 1, 7] do
              let x := Gen.Fn.LazyEvaluate_decision depth alpha beta mate cheap own enemy
              let y := Magog.Lemmas.lazyDecision depth alpha beta mate cheap own enemy
              if x != y && n < 5 then
                n := n + 1
                IO.println s!"MISMATCH LazyEvaluate depth={depth} alpha={alpha} beta={beta} mate={mate} cheapScore={cheap} ownMoves={own} enemyMoves={enemy}: code {x}, model {y}"
  for chk in [true, false] do
    for depth in [(0 : Int), 1, 7, 40] do
      let x := Gen.Fn.terminalNodeScore_decision depth chk
      let y : Int := if chk then Gen.LostScore + depth else Gen.DrawScore
      if x != y && n < 8 then
        n := n + 1
        IO.println s!"MISMATCH terminalNodeScore depth={depth} inCheck={chk}: code {x}, model {y}"
  for sc in [(-100000 : Int), -99999, -99998, -99997, -20801, -20800, -1, 0, 1, 20800, 20801, 99996, 99997, 99998, 99999, 100000] do
    if (Gen.Fn.closeToMate sc != Model.closeToMate sc || Gen.Fn.pliesToMate sc != Model.pliesToMate sc || Gen.Fn.fullMovesToMate sc != Model.fullMovesToMate sc || Gen.Fn.nextMoveWins sc != Model.nextMoveWins sc) && n < 12 then
      n := n + 1
      IO.println s!"MISMATCH mate arithmetic score={sc}: code closeToMate={Gen.Fn.closeToMate sc} pliesToMate={Gen.Fn.pliesToMate sc} fullMovesToMate={Gen.Fn.fullMovesToMate sc} nextMoveWins={Gen.Fn.nextMoveWins sc}, model {Model.closeToMate sc} {Model.pliesToMate sc} {Model.fullMovesToMate sc} {Model.nextMoveWins sc}"
""",
    "C04": """
#eval show IO Unit from do
  let mut n := 0
  for p in List.range 70 do
    let x := Gen.Fn.pieceToScore p
    let y := Model.pieceToScore p
    if !(okEqI x y) && n < 5 then
      n := n + 1
      IO.println s!"MISMATCH pieceToScore piece={p}: code {showE x}, model {showM y}"
""",
}


def diagnose(prop):
    """returns (list of mismatch lines, note). Empty list + note when the translated definition is missing."""
    if prop not in HUNTS:
        return [], ""
    funcs = open(os.path.join(LEAN, "Magog", "Generated", "Funcs.lean")).read()
    missing = re.findall(r"def (\w+)_untranslatable : String := (\"[^\n]*\")", funcs)
    path = os.path.join(BUILD, f"TieHunt_{prop}.lean")
    with open(path, "w") as f:
        f.write(PRELUDE + HUNTS[prop])
    rc, out = infra.sh(["lake", "env", "lean", path], cwd=LEAN, timeout=600)
    lines = [l for l in out.split("\n") if l.startswith("MISMATCH")]
    note = ""
    if missing:
        note = "untranslatable items: " + "; ".join(f"{n}: {why}" for n, why in missing)
    elif rc != 0 and not lines:
        note = "tie diagnosis did not elaborate: " + out[-400:]
    return lines, note
