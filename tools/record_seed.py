#!/usr/bin/env python3
"""record a confirmed seeded change: record_seed.py <out dir of the sub-agent> <id> <property> <breaks> <needs> <checks_run> <result>
copies patch.diff, demonstrations and notes into /verif/seeded/<id>/ and writes meta.json"""
import json, os, shutil, sys
src, sid, prop, breaks, needs, ran, result = sys.argv[1:8]
dst = os.path.join("/verif/seeded", sid)
os.makedirs(dst, exist_ok=True)
for fn in os.listdir(src):
    p = os.path.join(src, fn)
    if os.path.isfile(p) and os.path.getsize(p) < 300000 and not fn.endswith(".log") and not fn.startswith("magog"):
        shutil.copy(p, os.path.join(dst, fn))
json.dump({"id": sid, "property": prop, "breaks": breaks, "needs_to_manifest": needs,
           "source": "independent sub-agent given only the property text and a scratch worktree (rounds 12-13)",
           "confirmed": "applied in a scratch worktree by tools/seedtest.sh: go build (with and without -tags verif) ok, unchanged suite passes; demonstration fails with the change and passes without it (run by the sub-agent, re-run here where noted)",
           "checks_run": ran, "result": result}, open(os.path.join(dst, "meta.json"), "w"), indent=1)
print("recorded", dst, sorted(os.listdir(dst)))
