"""Independent decision procedure for property C08 on arbitrary byte strings.

C08: a string is to be accepted exactly when it is a syntactically valid FEN of a legal position whose move number
the engine can count (1..maxFullMoveCounter); accepted strings are loaded with their meaning.

`standard(bs)`  - the string is a FEN in the standard syntax; returns its canonical text.
`relaxed(bs)`   - the string is in the superset the unchanged loader is known to accept (the recorded finding
                  "lenient fields", known_findings.json): returns (canonical text of the position it is taken to
                  mean, set of tags naming the relaxations used).
Whether the canonical text describes a legal position is asked of the Lean specification (`slegal`), not decided
here. Nothing in this file looks at /repo or at the Lean model of the loader."""
import re

PIECES = b"pnbrqkPNBRQK"
CASTLE_STD = re.compile(rb"^(-|K?Q?k?q?)$")
EP_STD = re.compile(rb"^(-|[a-h][36])$")
DIGITS = re.compile(rb"^[0-9]+$")
ATOI = re.compile(rb"^[+-]?[0-9]+$")        # what Go's strconv.Atoi accepts in base 10 (no underscores, no blanks)

TAG_SITES = {
    "castling-field": "engine/fen.go: castling availability read with strings.Contains (any text accepted; letters K Q k q looked for)",
    "ep-field-short": "engine/fen.go: an en passant field of length 0 or 1 other than `-` is taken as `no en passant square`",
    "halfmove-field": "engine/fen.go: the half-move clock field is not read at all (TODO in the source)",
    "fullmove-sign": "engine/fen.go: the move number is read with strconv.Atoi, which accepts a leading sign",
    "adjacent-digits": "engine/fen.go: consecutive digits in a rank are added up (`44` for `8`)",
}


def _rank(row, allow_adjacent):
    """returns (expanded 8 cells as bytes with '.' for empty, used_adjacent) or None"""
    cells = bytearray()
    prev_digit = False
    adjacent = False
    for c in row:
        if 49 <= c <= 56:
            if prev_digit:
                adjacent = True
            cells += b"." * (c - 48)
            prev_digit = True
        elif c in PIECES:
            cells.append(c)
            prev_digit = False
        else:
            return None
        if len(cells) > 8:
            return None
    if len(cells) != 8 or (adjacent and not allow_adjacent):
        return None
    return bytes(cells), adjacent


def _canon_rank(cells):
    out = bytearray()
    run = 0
    for c in cells:
        if c == 46:
            run += 1
        else:
            if run:
                out.append(48 + run)
                run = 0
            out.append(c)
    if run:
        out.append(48 + run)
    return bytes(out)


def _parse(bs, relax):
    tags = set()
    if any(c > 127 for c in bs):
        return None
    f = bs.split(b" ")
    if len(f) != 6:
        return None
    rows = f[0].split(b"/")
    if len(rows) != 8:
        return None
    crow = []
    for r in rows:
        x = _rank(r, relax)
        if x is None:
            return None
        if x[1]:
            tags.add("adjacent-digits")
        crow.append(_canon_rank(x[0]))
    if f[1] not in (b"w", b"b"):
        return None
    if CASTLE_STD.match(f[2]) and f[2] != b"":
        rights = f[2]
    elif relax:
        tags.add("castling-field")
        rights = b"".join(ch for ch in (b"K", b"Q", b"k", b"q") if ch in f[2]) or b"-"
    else:
        return None
    if EP_STD.match(f[3]):
        ep = f[3]
    elif relax and len(f[3]) < 2:
        tags.add("ep-field-short")
        ep = b"-"
    else:
        return None
    if not DIGITS.match(f[4]):
        if not relax:
            return None
        tags.add("halfmove-field")
    if DIGITS.match(f[5]):
        n = int(f[5])
    elif relax and ATOI.match(f[5]):
        tags.add("fullmove-sign")
        n = int(f[5])
    else:
        return None
    canon = b"/".join(crow) + b" " + f[1] + b" " + rights + b" " + ep + b" 0 "
    return canon, n, tags


def standard(bs):
    r = _parse(bs, False)
    return None if r is None else (r[0], r[1])


def relaxed(bs):
    return _parse(bs, True)


def canon_text(canon, n):
    """FEN text to hand to the specification: move number clipped into the range the Lean loader reads"""
    return (canon + str(n).encode()).decode("ascii")
