#!/usr/bin/env python3
"""MANIFEST.setup_cmd: build the whole framework from files on disk (offline): extractor, Go harness,
engine binary (tag verif), generated Lean facts, Lean driver and every proof module."""
import os, sys
sys.path.insert(0, os.path.dirname(os.path.abspath(__file__)))
import infra

def main():
    for d in ("build", "evidence", "replays"):
        os.makedirs(os.path.join(infra.VERIF, d), exist_ok=True)
    pd = os.path.join(infra.LEAN, "Magog", "Props")
    targets = sorted("Magog.Props." + fn[:-5] for fn in os.listdir(pd) if fn.endswith(".lean"))
    r = infra.prepare(lean_targets=["Magog"] + targets)
    bad = [k for k, (rc, out) in r["lean"].items() if rc != 0]
    for k in bad:
        print(f"lake build {k} failed:\n{r['lean'][k][1][-3000:]}")
    print(f"setup done in {r['prepare_s']:.0f}s; generated facts: {r['gen']}; failed lean targets: {bad}")
    sys.exit(1 if bad else 0)

if __name__ == "__main__":
    main()
